use grafeo_engine::GrafeoDB;
fn rows(db: &GrafeoDB, q: &str) -> usize {
    match db.session().execute(q) { Ok(r) => r.rows.len(), Err(e) => { println!("ERR {q}: {e}"); 9999 } }
}
fn main() {
    let db = GrafeoDB::new_in_memory();
    let s = db.session();
    s.execute("INSERT (:P {age: 31})").unwrap();
    s.execute("INSERT (:P {age: 30})").unwrap();
    s.execute("INSERT (:P {age: 20})").unwrap();
    // range path (simple range predicate over a node scan) vs plain filter (same predicate, not recognised)
    println!("range  n.age > 30.5            : {}", rows(&db, "MATCH (n:P) WHERE n.age > 30.5 RETURN n"));
    println!("filter NOT (n.age <= 30.5)     : {}", rows(&db, "MATCH (n:P) WHERE NOT (n.age <= 30.5) RETURN n"));
    println!("filter n.age > 30.5 OR false   : {}", rows(&db, "MATCH (n:P) WHERE n.age > 30.5 OR n.age > 1000 RETURN n"));
    println!("zone   n.age = 30.0            : {}", rows(&db, "MATCH (n:P) WHERE n.age = 30.0 RETURN n"));
    println!("filter n.age = 30.0 OR false   : {}", rows(&db, "MATCH (n:P) WHERE n.age = 30.0 OR n.age = 1000 RETURN n"));
    println!("zone   n.age > 30 (int)        : {}", rows(&db, "MATCH (n:P) WHERE n.age > 30 RETURN n"));
}
