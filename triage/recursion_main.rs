use grafeo_engine::GrafeoDB;
fn main() {
    let a: Vec<String> = std::env::args().collect();
    let lang = a[1].as_str();
    let n: usize = a[2].parse().unwrap();
    let db = GrafeoDB::new_in_memory();
    let s = db.session();
    let open = "(".repeat(n);
    let close = ")".repeat(n);
    let r = match lang {
        "gql" => s.execute(&format!("MATCH (n) WHERE {open}1 = 1{close} RETURN n")).map(|_| ()),
        "cypher" => s.execute_cypher(&format!("MATCH (n) WHERE {open}1 = 1{close} RETURN n")).map(|_| ()),
        "sparql" => s.execute_sparql(&format!("SELECT ?s WHERE {{ ?s ?p ?o FILTER({open}1 = 1{close}) }}")).map(|_| ()),
        "gremlin" => {
            let mut q = String::new();
            for _ in 0..n { q.push_str("g.V().addE('x').from("); }
            q.push_str("g.V()");
            for _ in 0..n { q.push(')'); }
            s.execute_gremlin(&q).map(|_| ())
        }
        "graphql" => {
            let mut q = String::new();
            for _ in 0..n { q.push_str("{ a "); }
            for _ in 0..n { q.push('}'); }
            s.execute_graphql(&q).map(|_| ())
        }
        _ => panic!("lang"),
    };
    println!("{lang} {n}: returned {}", if r.is_ok() { "ok" } else { "error" });
}
