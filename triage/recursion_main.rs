use grafeo_engine::GrafeoDB;
fn real_main() {
    let a: Vec<String> = std::env::args().collect();
    let lang = a[1].as_str();
    let n: usize = a[2].parse().unwrap();
    let db = GrafeoDB::new_in_memory();
    let s = db.session();
    let open = "(".repeat(n);
    let close = ")".repeat(n);
    let r = match lang {
        "gql" => s.execute(&format!("MATCH (n) WHERE {open}1 = 1{close} RETURN n")).map(|_| ()),
        "cypher" => s.execute_cypher(&format!("MATCH (n) WHERE {open}1 = 1{close} RETURN n")).map(|_| ()),
        "sparql" => s.execute_sparql(&format!("SELECT ?s WHERE {{ ?s ?p ?o FILTER({open}1 = 1{close}) }}")).map(|_| ()),
        "gremlin" => {
            let mut q = String::new();
            for _ in 0..n { q.push_str("g.V().addE('x').from("); }
            q.push_str("g.V()");
            for _ in 0..n { q.push(')'); }
            s.execute_gremlin(&q).map(|_| ())
        }
        "graphql" => {
            let mut q = String::new();
            for _ in 0..n { q.push_str("{ a "); }
            for _ in 0..n { q.push('}'); }
            s.execute_graphql(&q).map(|_| ())
        }
        "gqlchain" => { let q = format!("MATCH (n) WHERE {} = 1 RETURN n", vec!["1"; n].join(" + ")); s.execute(&q).map(|_| ()) }
        "cypherchain" => { let q = format!("MATCH (n) WHERE {} = 1 RETURN n", vec!["1"; n].join(" + ")); s.execute_cypher(&q).map(|_| ()) }
        "gqland" => { let q = format!("MATCH (n) WHERE {} RETURN n", vec!["n.a = 1"; n].join(" AND ")); s.execute(&q).map(|_| ()) }
        "sparqlchain" => { let q = format!("SELECT ?s WHERE {{ ?s ?p ?o FILTER({} = 1) }}", vec!["1"; n].join(" + ")); s.execute_sparql(&q).map(|_| ()) }
        "gremlinchain" => { let mut q = String::from("g.V()"); for _ in 0..n { q.push_str(".out()"); } s.execute_gremlin(&q).map(|_| ()) }
        _ => panic!("lang"),
    };
    println!("{lang} {n}: returned {}", if r.is_ok() { "ok" } else { "error" });
}
fn main() {
    // run in a thread with a small (1 MiB) stack: half of a default Rust thread's
    let h = std::thread::Builder::new().stack_size(1 << 20).spawn(real_main).unwrap();
    h.join().unwrap();
}
