//! Triage experiments: each shows, against the real grafeo code, the input or
//! history behind a suspected defect named in /verif/DESIGN.md §6.
//! This is documentation for known_findings, NOT a registered check.
//! Build in a scratch dir outside /repo and /verif (see README.md).
use grafeo_common::types::Value;
use grafeo_engine::GrafeoDB;
use std::panic::{catch_unwind, AssertUnwindSafe};

fn run(name: &str, f: impl FnOnce() -> String) {
    match catch_unwind(AssertUnwindSafe(f)) {
        Ok(s) => println!("[{name}] {s}"),
        Err(e) => {
            let m = e.downcast_ref::<String>().cloned()
                .or_else(|| e.downcast_ref::<&str>().map(|s| s.to_string())).unwrap_or_default();
            println!("[{name}] PANIC: {m}")
        }
    }
}
fn q(db: &GrafeoDB, q: &str) -> String {
    match db.session().execute(q) {
        Ok(r) => format!("{} rows {:?}", r.rows.len(), r.rows.iter().take(4).collect::<Vec<_>>()),
        Err(e) => format!("ERR {e}"),
    }
}

fn main() {
    let args: Vec<String> = std::env::args().collect();
    // Sub-commands that abort the process are run separately.
    if args.len() > 2 && args[1] == "deep" {
        let n: usize = args[2].parse().unwrap();
        let s = format!("MATCH (n) WHERE {}1 = 1{} RETURN n", "(".repeat(n), ")".repeat(n));
        println!("deep {n}: {:?}", GrafeoDB::new_in_memory().session().execute(&s).map(|r| r.rows.len()).map_err(|e| e.to_string()));
        return;
    }
    if args.len() > 1 && args[1] == "hugelen" {
        use std::io::Write;
        let d = tempfile::tempdir().unwrap();
        { let db = GrafeoDB::open(d.path()).unwrap(); db.create_node(&["A"]); db.close().unwrap(); }
        let mut f = std::fs::OpenOptions::new().append(true).open(d.path().join("wal/wal_00000000.log")).unwrap();
        f.write_all(&[0xff, 0xff, 0xff, 0xff, 1, 2, 3]).unwrap(); drop(f);
        println!("open ok={}", GrafeoDB::open(d.path()).is_ok());
        return;
    }
    std::panic::set_hook(Box::new(|_| {}));

    // ---- C01 / C02 -------------------------------------------------------
    run("C01 dirty-read", || {
        let db = GrafeoDB::new_in_memory();
        let mut w = db.session(); let r = db.session();
        w.begin_tx().unwrap(); w.execute("INSERT (:P {name: 'uncommitted'})").unwrap();
        let seen = r.execute("MATCH (n:P) RETURN n.name").unwrap().rows.len();
        w.rollback().unwrap();
        format!("other session saw {seen} uncommitted rows (expected 0)")
    });
    run("C01/C07/C14 two-clocks", || {
        let db = GrafeoDB::new_in_memory();
        let mut s = db.session();
        s.begin_tx().unwrap(); s.execute("INSERT (:A {v: 1})").unwrap(); s.commit().unwrap();
        s.execute("INSERT (:A {v: 2})").unwrap();
        let s2 = db.session();
        format!("node_count={} label-scan={} unlabelled-scan={} filter(v=2)={} project={:?} (expected 2,2,2,1,[1,2])",
            db.node_count(),
            s2.execute("MATCH (n:A) RETURN n").unwrap().rows.len(),
            s2.execute("MATCH (n) RETURN n").unwrap().rows.len(),
            s2.execute("MATCH (n:A) WHERE n.v = 2 RETURN n").unwrap().rows.len(),
            s2.execute("MATCH (n:A) RETURN n.v").unwrap().rows)
    });
    run("C02 rollback-set", || {
        let db = GrafeoDB::new_in_memory(); db.session().execute("INSERT (:C {n: 0})").unwrap();
        let mut a = db.session(); a.begin_tx().unwrap(); a.execute("MATCH (c:C) SET c.n = 99").unwrap(); a.rollback().unwrap();
        format!("after rollback n = {:?} (expected 0)", db.session().execute("MATCH (c:C) RETURN c.n").unwrap().rows)
    });
    run("C02 rollback-delete", || {
        let db = GrafeoDB::new_in_memory(); db.session().execute("INSERT (:C {n: 0})").unwrap();
        let mut a = db.session(); a.begin_tx().unwrap(); a.execute("MATCH (c:C) DELETE c").unwrap(); a.rollback().unwrap();
        format!("after rollback rows = {:?} (expected one row)", db.session().execute("MATCH (c:C) RETURN c.n").unwrap().rows)
    });
    run("C02 session-drop", || {
        let db = GrafeoDB::new_in_memory();
        { let mut s = db.session(); s.begin_tx().unwrap(); s.execute("INSERT (:D)").unwrap(); }
        format!("after dropping a session with an open tx a label scan sees {} (expected 0)", db.session().execute("MATCH (n:D) RETURN n").unwrap().rows.len())
    });
    run("C01 rdf own-writes", || {
        let db = GrafeoDB::new_in_memory(); let mut s = db.session(); s.begin_tx().unwrap();
        s.execute_sparql("INSERT DATA { <http://a> <http://p> <http://b> }").unwrap();
        let own = s.execute_sparql("SELECT ?s WHERE { ?s <http://p> ?o }").unwrap().rows.len();
        s.rollback().unwrap();
        format!("in-tx read of own insert = {own} (expected 1)")
    });
    // ---- C03 / C04 -------------------------------------------------------
    run("C03 ww-false-refusal", || {
        use grafeo_common::types::NodeId; use grafeo_engine::transaction::TransactionManager;
        let m = TransactionManager::new();
        let t1 = m.begin(); m.record_write(t1, NodeId::new(1)).unwrap(); m.commit(t1).unwrap();
        let t2 = m.begin(); m.record_write(t2, NodeId::new(1)).unwrap();
        format!("t2 began after t1 committed; commit = {:?} (expected Ok)", m.commit(t2).map_err(|e| e.to_string()))
    });
    run("C03 lost-update via sessions", || {
        let db = GrafeoDB::new_in_memory(); db.session().execute("INSERT (:C {n: 0})").unwrap();
        let mut a = db.session(); let mut b = db.session(); a.begin_tx().unwrap(); b.begin_tx().unwrap();
        a.execute("MATCH (c:C) SET c.n = 1").unwrap(); b.execute("MATCH (c:C) SET c.n = 2").unwrap();
        format!("commit a={:?} b={:?} (expected one Err)", a.commit().map_err(|e| e.to_string()), b.commit().map_err(|e| e.to_string()))
    });
    run("C04 read-only refused", || {
        use grafeo_common::types::NodeId; use grafeo_engine::transaction::{IsolationLevel, TransactionManager};
        let m = TransactionManager::new();
        let r = m.begin_with_isolation(IsolationLevel::Serializable); m.record_read(r, NodeId::new(1)).unwrap();
        let w = m.begin(); m.record_write(w, NodeId::new(1)).unwrap(); m.commit(w).unwrap();
        format!("read-only serializable commit = {:?} (expected Ok)", m.commit(r).map_err(|e| e.to_string()))
    });
    // ---- C05 / C06 / C07 ---------------------------------------------------
    run("C05 wal-checkpoint-mid", || {
        let d = tempfile::tempdir().unwrap();
        { let db = GrafeoDB::open(d.path()).unwrap(); db.create_node(&["A"]); db.wal_checkpoint().unwrap(); db.create_node(&["B"]); db.close().unwrap(); }
        format!("reopened node_count = {} (expected 2)", GrafeoDB::open(d.path()).unwrap().node_count())
    });
    run("C05 wal-remove-prop", || {
        let d = tempfile::tempdir().unwrap();
        { let db = GrafeoDB::open(d.path()).unwrap(); let n = db.create_node_with_props(&["A"], [("p", Value::Int64(1))]); db.remove_node_property(n, "p"); db.close().unwrap(); }
        format!("reopened property counts = {:?} (expected [0])", GrafeoDB::open(d.path()).unwrap().iter_nodes().map(|n| n.properties.len()).collect::<Vec<_>>())
    });
    run("C05 wal-session-insert", || {
        let d = tempfile::tempdir().unwrap();
        { let db = GrafeoDB::open(d.path()).unwrap(); db.session().execute("INSERT (:Q {a: 1})").unwrap(); db.close().unwrap(); }
        format!("reopened node_count = {} (expected 1)", GrafeoDB::open(d.path()).unwrap().node_count())
    });
    run("C05 wal-rotate+checkpoint", || {
        use grafeo_adapters::storage::wal::{WalConfig, WalManager, WalRecord, WalRecovery};
        use grafeo_common::types::{EpochId, NodeId, TxId};
        let d = tempfile::tempdir().unwrap();
        { let w = WalManager::with_config(d.path(), WalConfig { max_log_size: 64, ..Default::default() }).unwrap();
          for i in 0..10u64 { w.log(&WalRecord::CreateNode { id: NodeId::new(i), labels: vec!["L".into()] }).unwrap(); w.log(&WalRecord::TxCommit { tx_id: TxId::new(2) }).unwrap(); }
          w.checkpoint(TxId::new(2), EpochId::new(0)).unwrap(); w.sync().unwrap(); }
        let n = WalRecovery::new(d.path()).recover().unwrap().iter().filter(|r| matches!(r, WalRecord::CreateNode { .. })).count();
        format!("recovered CreateNode = {n} of 10 committed")
    });
    run("C06 torn-tail then more writes", || {
        use std::io::Write;
        let d = tempfile::tempdir().unwrap();
        { let db = GrafeoDB::open(d.path()).unwrap(); db.create_node(&["A"]); db.close().unwrap(); }
        let mut f = std::fs::OpenOptions::new().append(true).open(d.path().join("wal/wal_00000000.log")).unwrap();
        f.write_all(&[40, 0, 0, 0, 1, 2, 3]).unwrap(); drop(f); // crash in the middle of a record
        let db = GrafeoDB::open(d.path()).unwrap(); let c0 = db.node_count(); db.create_node(&["B"]); db.create_node(&["C"]); db.close().unwrap(); drop(db);
        format!("after crash reopen count={c0}; wrote 2 more, closed; next reopen count={} (expected 3)", GrafeoDB::open(d.path()).unwrap().node_count())
    });
    run("C06 bitflip in first of several files", || {
        use grafeo_adapters::storage::wal::{WalConfig, WalManager, WalRecord, WalRecovery};
        use grafeo_common::types::{NodeId, TxId};
        let d = tempfile::tempdir().unwrap();
        { let w = WalManager::with_config(d.path(), WalConfig { max_log_size: 200, ..Default::default() }).unwrap();
          for i in 0..30u64 { w.log(&WalRecord::CreateNode { id: NodeId::new(i), labels: vec!["L".into()] }).unwrap(); w.log(&WalRecord::TxCommit { tx_id: TxId::new(2) }).unwrap(); }
          w.sync().unwrap(); }
        let f0 = d.path().join("wal_00000000.log"); let mut b = std::fs::read(&f0).unwrap(); b[40] ^= 1; std::fs::write(&f0, b).unwrap();
        let ids: Vec<u64> = WalRecovery::new(d.path()).recover().unwrap().iter().filter_map(|r| if let WalRecord::CreateNode { id, .. } = r { Some(id.as_u64()) } else { None }).collect();
        format!("recovered ids = {ids:?} (expected a prefix of 0..30)")
    });
    run("C07 snapshot-after-commit", || {
        let db = GrafeoDB::new_in_memory(); let mut s = db.session();
        s.begin_tx().unwrap(); s.execute("INSERT (:A)").unwrap(); s.commit().unwrap();
        s.begin_tx().unwrap(); s.execute("INSERT (:A)").unwrap(); s.commit().unwrap();
        let db2 = GrafeoDB::import_snapshot(&db.export_snapshot().unwrap()).unwrap();
        format!("source label-scan={} copy node_count={} (expected 2, 2)", db.session().execute("MATCH (n:A) RETURN n").unwrap().rows.len(), db2.node_count())
    });
    // ---- C09 (latent) / C10 / C14 -----------------------------------------
    run("C09 optimizer API: filter under reordered join", || {
        use grafeo_engine::query::plan::*; use grafeo_engine::query::Optimizer;
        let scan = |v: &str, l: &str| LogicalOperator::NodeScan(NodeScanOp { variable: v.into(), label: Some(l.into()), input: None });
        let prop = |v: &str| LogicalExpression::Property { variable: v.into(), property: "k".into() };
        let filt = LogicalOperator::Filter(FilterOp { predicate: LogicalExpression::Binary { left: Box::new(prop("a")), op: BinaryOp::Gt, right: Box::new(LogicalExpression::Literal(Value::Int64(1))) }, input: Box::new(scan("a", "A")) });
        let join = LogicalOperator::Join(JoinOp { left: Box::new(filt), right: Box::new(scan("b", "B")), join_type: JoinType::Inner, conditions: vec![JoinCondition { left: prop("a"), right: prop("b") }] });
        let plan = LogicalPlan::new(LogicalOperator::Return(ReturnOp { items: vec![ReturnItem { expression: LogicalExpression::Variable("a".into()), alias: None }], distinct: false, input: Box::new(join) }));
        format!("filter kept after reorder: {} (no front-end query reaching this shape was found)", format!("{:?}", Optimizer::new().optimize(plan).unwrap().root).contains("Filter"))
    });
    run("C10 index drops extra conjunct", || {
        let db = GrafeoDB::new_in_memory();
        db.create_node_with_props(&["A"], [("k", Value::Int64(7)), ("j", Value::Int64(1))]);
        db.create_node_with_props(&["A"], [("k", Value::Int64(7)), ("j", Value::Int64(5))]);
        let a = q(&db, "MATCH (a:A) WHERE a.k = 7 AND a.j > 3 RETURN a.j"); db.create_property_index("k");
        format!("without index: {a}; with index: {}", q(&db, "MATCH (a:A) WHERE a.k = 7 AND a.j > 3 RETURN  a.j"))
    });
    run("C10/C14 index returns deleted node", || {
        let db = GrafeoDB::new_in_memory();
        let n = db.create_node_with_props(&["A"], [("k", Value::Int64(7))]); db.create_node_with_props(&["A"], [("k", Value::Int64(8))]);
        db.create_property_index("k"); db.delete_node(n);
        format!("store index lookup {:?}; query with index: {} (expected none)", db.store().find_nodes_by_property("k", &Value::Int64(7)), q(&db, "MATCH (a) WHERE a.k = 7 RETURN a.k"))
    });
    run("C14 delete-node leaves edges", || {
        let db = GrafeoDB::new_in_memory(); let a = db.create_node(&["A"]); let b = db.create_node(&["A"]); db.create_edge(a, b, "R"); db.delete_node(b);
        format!("edge_count={} neighbors(a)={:?} validate errors={}", db.edge_count(), db.store().edges_from(a, grafeo_core::graph::Direction::Outgoing).collect::<Vec<_>>(), db.validate().errors.len())
    });
    // ---- C12 ---------------------------------------------------------------
    run("C12 gql lexer non-ascii", || format!("{:?}", GrafeoDB::new_in_memory().session().execute("MATCH (n) RETURN é").map(|r| r.rows.len()).map_err(|e| e.to_string())));
    run("C12 gql lexer nbsp", || format!("{:?}", GrafeoDB::new_in_memory().session().execute("MATCH\u{a0}(n) RETURN n").map(|r| r.rows.len()).map_err(|e| e.to_string())));
    run("C12 graphql lexer", || format!("{:?}", GrafeoDB::new_in_memory().session().execute_graphql("{ user(name: \"ééééééé\") { ...f } }").map(|r| r.rows.len()).map_err(|e| e.to_string())));
    run("C12 graphql lexer mis-tokenises", || format!("6 é: {:?} / ascii: {:?}", GrafeoDB::new_in_memory().session().execute_graphql("{ user(name: \"éééééé\") { ...f } }").map(|r| r.rows.len()).map_err(|e| e.to_string()), GrafeoDB::new_in_memory().session().execute_graphql("{ user(name: \"aaaaaa\") { ...f } }").map(|r| r.rows.len()).map_err(|e| e.to_string())));
    run("C12 i64::MIN % -1", || { let db = GrafeoDB::new_in_memory(); db.create_node_with_props(&["X"], [("a", Value::Int64(i64::MIN)), ("b", Value::Int64(-1))]); q(&db, "MATCH (n:X) WHERE n.a % n.b = 0 RETURN n") });
    run("C12 1 / 0", || { let db = GrafeoDB::new_in_memory(); db.create_node_with_props(&["X"], [("a", Value::Int64(1)), ("b", Value::Int64(0))]); q(&db, "MATCH (n:X) WHERE n.a / n.b = 0 RETURN n") });
    // ---- C13 / C15 / C16 ----------------------------------------------------
    run("C13 find_with_pending duplicates", || {
        use grafeo_common::types::TxId; use grafeo_core::graph::rdf::{RdfStore, Term, Triple, TriplePattern};
        let st = RdfStore::new(); let t = Triple::new(Term::iri("a"), Term::iri("p"), Term::iri("b")); st.insert(t.clone()); st.insert_in_tx(TxId::new(5), t);
        format!("{} copies (expected 1)", st.find_with_pending(&TriplePattern { subject: Some(Term::iri("a")), predicate: None, object: None }, Some(TxId::new(5))).len())
    });
    run("C15 compressed column read", || {
        use grafeo_common::types::{NodeId, PropertyKey}; use grafeo_core::graph::lpg::PropertyStorage;
        let ps: PropertyStorage<NodeId> = PropertyStorage::new();
        for i in 0..2000u64 { ps.set(NodeId::new(i), PropertyKey::new("p"), Value::Int64(i as i64)); }
        let before = ps.get(NodeId::new(5), &PropertyKey::new("p")); ps.force_compress_all();
        format!("before={before:?} after={:?}", ps.get(NodeId::new(5), &PropertyKey::new("p")))
    });
    run("C16 hash/eq/transitivity", || {
        use grafeo_common::types::{OrderableValue, OrderedFloat64}; use std::collections::hash_map::DefaultHasher; use std::hash::{Hash, Hasher};
        fn h<T: Hash>(t: &T) -> u64 { let mut s = DefaultHasher::new(); t.hash(&mut s); s.finish() }
        let (a, b) = (OrderedFloat64(0.0), OrderedFloat64(-0.0));
        let (c, d) = (OrderableValue::Int64(1), OrderableValue::Float64(OrderedFloat64(1.0)));
        let big = 9007199254740993i64;
        let (x, y, z) = (OrderableValue::Int64(big), OrderableValue::Float64(OrderedFloat64(9007199254740992.0)), OrderableValue::Int64(big - 1));
        format!("0.0==-0.0:{} samehash:{} | Int1==Float1:{} samehash:{} | x==y:{} y==z:{} x==z:{}", a == b, h(&a) == h(&b), c == d, h(&c) == h(&d), x == y, y == z, x == z)
    });
}
