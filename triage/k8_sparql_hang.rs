#![cfg(feature = "sparql")]
use std::sync::mpsc;
use std::time::Duration;
fn bounded(q: &'static str) -> bool {
    let (tx, rx) = mpsc::channel();
    std::thread::spawn(move || {
        let r = grafeo_adapters::query::sparql::parse(q);
        let _ = tx.send(r.is_ok());
    });
    rx.recv_timeout(Duration::from_secs(5)).is_ok()
}
#[test]
fn stray_paren_in_group() { assert!(bounded("SELECT * WHERE { ) }")); }
#[test]
fn stray_dot_in_group() { assert!(bounded("SELECT * WHERE { . }")); }
#[test]
fn stray_keyword_in_group() { assert!(bounded("SELECT * WHERE { ?s ?p ?o AS }")); }
