// grafeo-facts: a rustc_private driver that dumps, per workspace crate, the
// resolved MIR of every function body as JSON facts (see /verif/DESIGN.md §3.1).
// It is injected with RUSTC_WORKSPACE_WRAPPER under `cargo +nightly check`.
// It never runs grafeo code; it only serialises what rustc computed.
#![feature(rustc_private)]
#![allow(clippy::all)]

extern crate rustc_abi;
extern crate rustc_data_structures;
extern crate rustc_driver;
extern crate rustc_hir;
extern crate rustc_interface;
extern crate rustc_middle;
extern crate rustc_session;
extern crate rustc_span;

use rustc_driver::{Callbacks, Compilation};
use rustc_hir::def::DefKind;
use rustc_hir::def_id::{DefId, LOCAL_CRATE};
use rustc_interface::interface::Compiler;
use rustc_middle::mir::{
    AggregateKind, AssertKind, BasicBlock, Body, BorrowKind, Operand, Place, ProjectionElem,
    Rvalue, StatementKind, TerminatorKind, UnwindAction,
};
use rustc_middle::ty::print::{with_crate_prefix, with_no_trimmed_paths, with_no_visible_paths, PrintTraitRefExt};
use rustc_middle::ty::{self, Instance, InstanceKind, Ty, TyCtxt, TypingEnv};
use std::collections::HashMap;
use std::fmt::Write as _;

// ---------------------------------------------------------------- JSON helpers

fn esc(s: &str, out: &mut String) {
    out.push('"');
    for c in s.chars() {
        match c {
            '"' => out.push_str("\\\""),
            '\\' => out.push_str("\\\\"),
            '\n' => out.push_str("\\n"),
            '\r' => out.push_str("\\r"),
            '\t' => out.push_str("\\t"),
            c if (c as u32) < 0x20 => {
                let _ = write!(out, "\\u{:04x}", c as u32);
            }
            c => out.push(c),
        }
    }
    out.push('"');
}

fn jstr(s: &str) -> String {
    let mut o = String::with_capacity(s.len() + 2);
    esc(s, &mut o);
    o
}

fn jopt(s: &Option<String>) -> String {
    match s {
        Some(s) => jstr(s),
        None => "null".to_string(),
    }
}

fn jlist(v: &[String]) -> String {
    let mut o = String::from("[");
    for (i, x) in v.iter().enumerate() {
        if i > 0 {
            o.push(',');
        }
        o.push_str(x);
    }
    o.push(']');
    o
}

// ---------------------------------------------------------------- naming

thread_local! { static KRATE: std::cell::RefCell<String> = std::cell::RefCell::new(String::new()); }
struct KrTag;
const KR: KrTag = KrTag;
macro_rules! pp {
    ($k:expr, $e:expr) => {{
        let _ = &$k;
        let s: String = with_crate_prefix!(with_no_visible_paths!(with_no_trimmed_paths!($e)));
        fix_crate(s)
    }};
}
fn fix_crate(s: String) -> String {
    if !s.contains("crate::") {
        return s;
    }
    let kr = KRATE.with(|k| k.borrow().clone());
    let b = s.as_bytes();
    let mut out = String::with_capacity(s.len() + 16);
    let mut i = 0;
    while i < b.len() {
        if s[i..].starts_with("crate::") && (i == 0 || !(b[i - 1].is_ascii_alphanumeric() || b[i - 1] == b'_')) {
            out.push_str(&kr);
            out.push_str("::");
            i += 7;
        } else {
            let ch = s[i..].chars().next().unwrap();
            out.push(ch);
            i += ch.len_utf8();
        }
    }
    out
}

/// Strip `::<...>` generic-argument segments (balanced) from a printed def path, so that
/// `Lexer::<'a>::advance` and `Vec::<T>::push` become `Lexer::advance` / `Vec::push`.
fn strip_generic_segments(s: &str) -> String {
    let b: Vec<char> = s.chars().collect();
    let mut out = String::with_capacity(s.len());
    let mut i = 0;
    while i < b.len() {
        let is_impl_seg = i + 7 < b.len() && b[i + 2..i + 8].iter().collect::<String>() == "<impl ";
        if b[i] == ':' && i + 2 < b.len() && b[i + 1] == ':' && b[i + 2] == '<' && !is_impl_seg {
            // skip balanced <...>
            let mut depth = 0i32;
            let mut j = i + 2;
            while j < b.len() {
                if b[j] == '<' {
                    depth += 1;
                } else if b[j] == '>' && !(j > 0 && b[j - 1] == '-') {
                    depth -= 1;
                    if depth == 0 {
                        break;
                    }
                }
                j += 1;
            }
            i = j + 1;
            continue;
        }
        out.push(b[i]);
        i += 1;
    }
    out
}

struct Cx<'tcx> {
    tcx: TyCtxt<'tcx>,
    krate: String,
    types: Vec<String>,
    type_ix: HashMap<String, usize>,
    path_cache: HashMap<DefId, String>,
}

impl<'tcx> Cx<'tcx> {
    fn path(&mut self, did: DefId) -> String {
        if let Some(p) = self.path_cache.get(&did) {
            return p.clone();
        }
        let raw = pp!(KR, (self.tcx.def_path_str(did)));
        let raw = strip_generic_segments(&raw);
        // items inside `const _: () = { impl .. }` (every derive of serde) all print as `module::_::name`:
        // name the anonymous constant after the type its impl is for, so that the paths are distinct
        let p = if raw.contains("::_::") {
            match self.anon_owner(did) {
                Some(o) => raw.replacen("::_::", &format!("::_[{}]::", o), 1),
                None => raw,
            }
        } else {
            raw
        };
        // same-named siblings (nested fns / types repeated in several arms of one body) differ only in their
        // disambiguator, which the printer omits
        let mut extra: Vec<String> = Vec::new();
        for c in self.tcx.def_path(did).data.iter() {
            if c.disambiguator != 0
                && c.data.get_opt_name().map_or(true, |n| n.as_str() != "_")
                && matches!(c.data, rustc_hir::definitions::DefPathData::TypeNs(..) | rustc_hir::definitions::DefPathData::ValueNs(..))
            {
                extra.push(c.disambiguator.to_string());
            }
        }
        let p = if extra.is_empty() { p } else { format!("{}#{}", p, extra.join(".")) };
        self.path_cache.insert(did, p.clone());
        p
    }

    fn anon_owner(&mut self, did: DefId) -> Option<String> {
        let tcx = self.tcx;
        let mut cur = did;
        loop {
            let parent = tcx.opt_parent(cur)?;
            let anon = matches!(tcx.def_kind(parent), DefKind::Const { .. } | DefKind::AnonConst)
                && tcx.opt_item_name(parent).map_or(true, |n| n.as_str() == "_");
            if anon {
                if matches!(tcx.def_kind(cur), DefKind::Impl { .. }) {
                    let st = tcx.type_of(cur).skip_binder();
                    let full = match st.kind() {
                        ty::Adt(adt, _) => pp!(KR, (tcx.def_path_str(adt.did()))),
                        _ => pp!(KR, (format!("{}", st))),
                    };
                    let last = full.rsplit("::").next().unwrap_or(&full).to_string();
                    return Some(last.chars().filter(|c| c.is_alphanumeric() || *c == '_').collect());
                }
                return tcx.opt_item_name(cur).map(|n| n.as_str().to_string());
            }
            cur = parent;
        }
    }

    fn ty_str(&mut self, t: Ty<'tcx>) -> String {
        let s = pp!(KR, (format!("{}", t)));
        if s.len() > 400 {
            let mut cut = 400;
            while !s.is_char_boundary(cut) {
                cut -= 1;
            }
            format!("{}…", &s[..cut])
        } else {
            s
        }
    }

    fn ty_ix(&mut self, t: Ty<'tcx>) -> usize {
        let s = self.ty_str(t);
        if let Some(i) = self.type_ix.get(&s) {
            return *i;
        }
        let i = self.types.len();
        self.types.push(s.clone());
        self.type_ix.insert(s, i);
        i
    }
}

/// def_path_str of a local item omits the crate name. We cannot just prefix: `<a::B as c::D>::f`
/// has two paths. Local paths are recognised by asking rustc to print with a marker instead:
/// we print with `crate::` prefix forced (see `local_prefixed`) – but that API also affects
/// extern paths. Simplest exact approach: local def paths printed by rustc start either with an
/// identifier (module path) or with `<`. Inside `<..>` the self type and trait may each be local
/// or foreign. We therefore do not try to qualify inside angle brackets here; instead the driver
/// prints local impl paths itself (see `fn_id`). This function only handles the plain case.
fn qualify_local(raw: &str, krate: &str) -> String {
    if raw.starts_with('<') {
        raw.to_string()
    } else {
        format!("{}::{}", krate, raw)
    }
}

// ---------------------------------------------------------------- extraction

fn place_json<'tcx>(cx: &mut Cx<'tcx>, body: &Body<'tcx>, p: &Place<'tcx>) -> String {
    let tcx = cx.tcx;
    let mut parts: Vec<String> = vec![format!("{}", p.local.as_usize())];
    let mut pty = rustc_middle::mir::PlaceTy::from_ty(body.local_decls[p.local].ty);
    for elem in p.projection.iter() {
        let s = match elem {
            ProjectionElem::Deref => "\"*\"".to_string(),
            ProjectionElem::Field(f, _) => {
                let (owner, name) = match pty.ty.kind() {
                    ty::Adt(adt, _) => {
                        let vi = pty.variant_index.unwrap_or(rustc_abi::FIRST_VARIANT);
                        let v = adt.variant(vi);
                        let nm = v
                            .fields
                            .get(f)
                            .map(|fd| fd.name.to_string())
                            .unwrap_or_else(|| format!("{}", f.as_usize()));
                        let mut o = cx.path(adt.did());
                        if adt.is_enum() {
                            o = format!("{}::{}", o, v.name);
                        }
                        (o, nm)
                    }
                    ty::Tuple(_) => ("(tuple)".to_string(), format!("{}", f.as_usize())),
                    ty::Closure(did, _) => {
                        // upvar name
                        let names = tcx.closure_saved_names_of_captured_variables(*did);
                        let nm = names
                            .get(f)
                            .map(|s| s.to_string())
                            .unwrap_or_else(|| format!("{}", f.as_usize()));
                        (format!("{{closure}}#{}", f.as_usize()), nm)
                    }
                    ty::Coroutine(..) => {
                        let vi = pty.variant_index.map(|v| v.as_usize()).unwrap_or(usize::MAX);
                        if vi == usize::MAX {
                            ("{coroutine}".to_string(), format!("up{}", f.as_usize()))
                        } else {
                            ("{coroutine}".to_string(), format!("s{}_{}", vi, f.as_usize()))
                        }
                    }
                    _ => ("?".to_string(), format!("{}", f.as_usize())),
                };
                jstr(&format!("f:{}:{}", name, owner))
            }
            ProjectionElem::Index(l) => jstr(&format!("i:{}", l.as_usize())),
            ProjectionElem::ConstantIndex { offset, from_end, .. } => {
                jstr(&format!("c:{}{}", if from_end { "-" } else { "" }, offset))
            }
            ProjectionElem::Subslice { .. } => "\"s\"".to_string(),
            ProjectionElem::Downcast(name, vi) => {
                let n = name.map(|s| s.to_string()).unwrap_or_else(|| format!("{}", vi.as_usize()));
                jstr(&format!("d:{}", n))
            }
            ProjectionElem::OpaqueCast(_) => "\"o\"".to_string(),
            ProjectionElem::UnwrapUnsafeBinder(_) => "\"u\"".to_string(),
        };
        parts.push(s);
        pty = pty.projection_ty(tcx, elem);
    }
    jlist(&parts)
}

fn operand_json<'tcx>(cx: &mut Cx<'tcx>, body: &Body<'tcx>, def: DefId, o: &Operand<'tcx>) -> String {
    match o {
        Operand::Copy(p) => format!("[\"c\",{}]", place_json(cx, body, p)),
        Operand::Move(p) => format!("[\"m\",{}]", place_json(cx, body, p)),
        Operand::Constant(c) => {
            let t = c.const_.ty();
            if let rustc_middle::mir::Const::Unevaluated(uv, _) = c.const_ {
                if let Some(p) = uv.promoted {
                    let ts = cx.ty_str(t);
                    return format!("[\"k\",\"promoted:{}\",{}]", p.as_usize(), jstr(&ts));
                }
            }
            match t.kind() {
                ty::FnDef(did, _) => format!("[\"fn\",{}]", jstr(&cx.path(*did))),
                ty::Closure(did, _) => format!("[\"fn\",{}]", jstr(&cx.path(*did))),
                _ => {
                    let tenv = TypingEnv::post_analysis(cx.tcx, def);
                    let mut val: Option<String> = None;
                    if t.is_integral() || t.is_bool() || t.is_char() {
                        if let Some(si) = c.const_.try_eval_scalar_int(cx.tcx, tenv) {
                            let size = si.size();
                            if t.is_signed() {
                                val = Some(format!("{}", si.to_int(size)));
                            } else {
                                val = Some(format!("{}", si.to_uint(size)));
                            }
                        }
                    }
                    let v = match val {
                        Some(v) => v,
                        None => {
                            let s = pp!(KR, (format!("{}", c.const_)));
                            let s: String = s.chars().take(120).collect();
                            s
                        }
                    };
                    let ts = cx.ty_str(t);
                    format!("[\"k\",{},{}]", jstr(&v), jstr(&ts))
                }
            }
        }
        _ => "[\"k\",\"<rt>\",\"\"]".to_string(),
    }
}

fn line_of<'tcx>(tcx: TyCtxt<'tcx>, span: rustc_span::Span) -> (u32, bool) {
    let exp = span.from_expansion();
    let sp = if exp { span.source_callsite() } else { span };
    let lo = tcx.sess.source_map().lookup_char_pos(sp.lo());
    (lo.line as u32, exp)
}

fn rvalue_json<'tcx>(cx: &mut Cx<'tcx>, body: &Body<'tcx>, def: DefId, rv: &Rvalue<'tcx>) -> String {
    match rv {
        Rvalue::Use(o, ..) => format!("[\"use\",{}]", operand_json(cx, body, def, o)),
        Rvalue::CopyForDeref(p) => format!("[\"use\",[\"c\",{}]]", place_json(cx, body, p)),
        Rvalue::Ref(_, bk, p) => {
            let m = match bk {
                BorrowKind::Mut { .. } => "mut",
                BorrowKind::Shared => "shr",
                BorrowKind::Fake(_) => "fake",
            };
            format!("[\"ref\",\"{}\",{}]", m, place_json(cx, body, p))
        }
        Rvalue::RawPtr(k, p) => {
            let m = format!("{:?}", k);
            format!("[\"raw\",{},{}]", jstr(&m), place_json(cx, body, p))
        }
        Rvalue::BinaryOp(op, ab) => {
            let (a, b) = &**ab;
            let ta = a.ty(&body.local_decls, cx.tcx);
            let ts = cx.ty_str(ta);
            format!(
                "[\"bin\",\"{:?}\",{},{},{}]",
                op,
                operand_json(cx, body, def, a),
                operand_json(cx, body, def, b),
                jstr(&ts)
            )
        }
        Rvalue::UnaryOp(op, a) => {
            let ta = a.ty(&body.local_decls, cx.tcx);
            let ts = cx.ty_str(ta);
            format!("[\"un\",\"{:?}\",{},{}]", op, operand_json(cx, body, def, a), jstr(&ts))
        }
        Rvalue::Discriminant(p) => {
            let t = p.ty(&body.local_decls, cx.tcx).ty;
            let tn = match t.kind() {
                ty::Adt(adt, _) => cx.path(adt.did()),
                _ => cx.ty_str(t),
            };
            format!("[\"discr\",{},{}]", place_json(cx, body, p), jstr(&tn))
        }
        Rvalue::Aggregate(kind, ops) => {
            let opsj: Vec<String> = ops.iter().map(|o| operand_json(cx, body, def, o)).collect();
            match &**kind {
                AggregateKind::Adt(did, vi, _, _, active) => {
                    let adt = cx.tcx.adt_def(*did);
                    let v = adt.variant(*vi);
                    let vname = v.name.to_string();
                    let fields: Vec<String> = if let Some(a) = active {
                        vec![jstr(&v.fields[*a].name.to_string())]
                    } else {
                        v.fields.iter().map(|f| jstr(&f.name.to_string())).collect()
                    };
                    format!(
                        "[\"agg\",\"adt\",{},{},{},{}]",
                        jstr(&cx.path(*did)),
                        jstr(&vname),
                        jlist(&opsj),
                        jlist(&fields)
                    )
                }
                AggregateKind::Closure(did, _) => {
                    format!("[\"agg\",\"closure\",{},\"\",{},[]]", jstr(&cx.path(*did)), jlist(&opsj))
                }
                AggregateKind::Coroutine(did, _) | AggregateKind::CoroutineClosure(did, _) => {
                    format!("[\"agg\",\"coroutine\",{},\"\",{},[]]", jstr(&cx.path(*did)), jlist(&opsj))
                }
                AggregateKind::Tuple => format!("[\"agg\",\"tuple\",\"\",\"\",{},[]]", jlist(&opsj)),
                AggregateKind::Array(_) => format!("[\"agg\",\"array\",\"\",\"\",{},[]]", jlist(&opsj)),
                AggregateKind::RawPtr(..) => format!("[\"agg\",\"rawptr\",\"\",\"\",{},[]]", jlist(&opsj)),
            }
        }
        Rvalue::Cast(k, o, t) => {
            let ks = format!("{:?}", k);
            let ks: String = ks.chars().take(60).collect();
            let ts = cx.ty_str(*t);
            let from = o.ty(&body.local_decls, cx.tcx);
            let fs = cx.ty_str(from);
            format!("[\"cast\",{},{},{},{}]", jstr(&ks), operand_json(cx, body, def, o), jstr(&ts), jstr(&fs))
        }
        Rvalue::Repeat(o, _) => format!("[\"repeat\",{}]", operand_json(cx, body, def, o)),
        Rvalue::ThreadLocalRef(d) => format!("[\"tls\",{}]", jstr(&cx.path(*d))),
        Rvalue::WrapUnsafeBinder(o, _) => format!("[\"use\",{}]", operand_json(cx, body, def, o)),
    }
}

fn assert_json<'tcx>(cx: &mut Cx<'tcx>, body: &Body<'tcx>, def: DefId, m: &AssertKind<Operand<'tcx>>) -> (String, Vec<String>, String) {
    // returns (kind, operands, operand type)
    let tcx = cx.tcx;
    let mut tystr = String::new();
    let mut ops = vec![];
    let kind = match m {
        AssertKind::BoundsCheck { len, index } => {
            ops.push(operand_json(cx, body, def, len));
            ops.push(operand_json(cx, body, def, index));
            "BoundsCheck".to_string()
        }
        AssertKind::Overflow(op, a, b) => {
            tystr = cx.ty_str(a.ty(&body.local_decls, tcx));
            ops.push(operand_json(cx, body, def, a));
            ops.push(operand_json(cx, body, def, b));
            format!("Overflow:{:?}", op)
        }
        AssertKind::OverflowNeg(a) => {
            tystr = cx.ty_str(a.ty(&body.local_decls, tcx));
            ops.push(operand_json(cx, body, def, a));
            "OverflowNeg".to_string()
        }
        AssertKind::DivisionByZero(a) => {
            tystr = cx.ty_str(a.ty(&body.local_decls, tcx));
            ops.push(operand_json(cx, body, def, a));
            "DivisionByZero".to_string()
        }
        AssertKind::RemainderByZero(a) => {
            tystr = cx.ty_str(a.ty(&body.local_decls, tcx));
            ops.push(operand_json(cx, body, def, a));
            "RemainderByZero".to_string()
        }
        AssertKind::MisalignedPointerDereference { .. } => "Misaligned".to_string(),
        AssertKind::NullPointerDereference => "NullDeref".to_string(),
        AssertKind::InvalidEnumConstruction(_) => "InvalidEnum".to_string(),
        _ => "Other".to_string(),
    };
    (kind, ops, tystr)
}

fn fn_facts<'tcx>(cx: &mut Cx<'tcx>, did: DefId, out: &mut String) {
    let tcx = cx.tcx;
    let kind = tcx.def_kind(did);
    let body: &Body<'tcx> = tcx.optimized_mir(did);
    let tenv = TypingEnv::post_analysis(tcx, did);
    let id = cx.path(did);
    let (line, _) = line_of(tcx, tcx.def_span(did));
    let file = {
        let sp = tcx.def_span(did);
        let lo = tcx.sess.source_map().lookup_char_pos(sp.lo());
        format!("{}", lo.file.name.prefer_local_unconditionally())
    };
    let parent = if kind == DefKind::Closure {
        Some(cx.path(tcx.typeck_root_def_id(did)))
    } else {
        None
    };
    // impl info
    let mut impl_self: Option<String> = None;
    let mut impl_trait: Option<String> = None;
    let mut trait_item: Option<String> = None;
    let mut vis = "priv".to_string();
    let mut abi_c = false;
    let mut no_mangle = false;
    if matches!(kind, DefKind::Fn | DefKind::AssocFn) {
        let v = tcx.visibility(did);
        vis = if v.is_public() { "pub".into() } else { format!("{:?}", v).chars().take(40).collect() };
        let sig = tcx.fn_sig(did).skip_binder();
        abi_c = format!("{:?}", sig.abi()).contains("C");
        let attrs = tcx.codegen_fn_attrs(did);
        no_mangle = attrs.symbol_name.is_some()
            || format!("{:?}", attrs.flags).contains("NO_MANGLE");
        if kind == DefKind::AssocFn {
            let p = tcx.parent(did);
            if matches!(tcx.def_kind(p), DefKind::Impl { .. }) {
                let st = tcx.type_of(p).skip_binder();
                impl_self = Some(match st.kind() {
                    ty::Adt(adt, _) => cx.path(adt.did()),
                    _ => cx.ty_str(st),
                });
                if let Some(tr) = tcx.impl_opt_trait_ref(p) {
                    let tr = tr.skip_binder();
                    impl_trait = Some(cx.path(tr.def_id));
                }
                if let Some(ti) = tcx.trait_item_of(did) {
                    trait_item = Some(cx.path(ti));
                }
            } else if tcx.def_kind(p) == DefKind::Trait {
                // default method body in a trait
                impl_trait = Some(cx.path(p));
                trait_item = Some(cx.path(did));
            }
        }
    }

    let _ = write!(
        out,
        "{{\"id\":{},\"kind\":\"{}\",\"file\":{},\"line\":{},\"parent\":{},\"impl_self\":{},\"impl_trait\":{},\"trait_item\":{},\"vis\":{},\"abi_c\":{},\"no_mangle\":{},\"argc\":{},",
        jstr(&id),
        match kind {
            DefKind::Fn => "fn",
            DefKind::AssocFn => "assoc",
            DefKind::Closure => "closure",
            _ => "other",
        },
        jstr(&file),
        line,
        jopt(&parent),
        jopt(&impl_self),
        jopt(&impl_trait),
        jopt(&trait_item),
        jstr(&vis),
        abi_c,
        no_mangle,
        body.arg_count
    );

    // locals: type index
    let mut locs = vec![];
    for ld in body.local_decls.iter() {
        locs.push(format!("{}", cx.ty_ix(ld.ty)));
    }
    let _ = write!(out, "\"locals\":{},", jlist(&locs));
    // debug names
    let mut dbg = vec![];
    for vdi in body.var_debug_info.iter() {
        if let rustc_middle::mir::VarDebugInfoContents::Place(p) = &vdi.value {
            dbg.push(format!("[{},{}]", jstr(&vdi.name.to_string()), place_json(cx, body, p)));
        }
    }
    let _ = write!(out, "\"dbg\":{},", jlist(&dbg));

    // dominators
    let doms = body.basic_blocks.dominators();
    let mut idom = vec![];
    for bb in body.basic_blocks.indices() {
        match doms.immediate_dominator(bb) {
            Some(d) => idom.push(format!("{}", d.as_usize())),
            None => idom.push("-1".to_string()),
        }
    }
    let _ = write!(out, "\"idom\":{},", jlist(&idom));

    // blocks
    let mut blocks = vec![];
    for (_bb, data) in body.basic_blocks.iter_enumerated() {
        let mut stmts = vec![];
        for st in data.statements.iter() {
            match &st.kind {
                StatementKind::Assign(b) => {
                    let (p, rv) = &**b;
                    let (ln, _) = line_of(tcx, st.source_info.span);
                    stmts.push(format!(
                        "[{},{},{}]",
                        place_json(cx, body, p),
                        rvalue_json(cx, body, did, rv),
                        ln
                    ));
                }
                StatementKind::SetDiscriminant { place, variant_index } => {
                    let (ln, _) = line_of(tcx, st.source_info.span);
                    stmts.push(format!(
                        "[{},[\"setdiscr\",{}],{}]",
                        place_json(cx, body, place),
                        variant_index.as_usize(),
                        ln
                    ));
                }
                StatementKind::StorageDead(l) => {
                    stmts.push(format!("[[{}],[\"dead\"],0]", l.as_usize()));
                }
                _ => {}
            }
        }
        let term = data.terminator();
        let (tl, texp) = line_of(tcx, term.source_info.span);
        let bt = |b: &BasicBlock| format!("{}", b.as_usize());
        let unwind_of = |u: &UnwindAction| match u {
            UnwindAction::Cleanup(b) => format!("{}", b.as_usize()),
            _ => "null".to_string(),
        };
        let tj = match &term.kind {
            TerminatorKind::Goto { target } => format!("{{\"k\":\"goto\",\"t\":{}}}", bt(target)),
            TerminatorKind::SwitchInt { discr, targets } => {
                let vals: Vec<String> = targets.iter().map(|(v, _)| format!("\"{}\"", v)).collect();
                let mut tg: Vec<String> = targets.iter().map(|(_, t)| bt(&t)).collect();
                tg.push(bt(&targets.otherwise()));
                let dt = cx.ty_str(discr.ty(&body.local_decls, tcx));
                format!(
                    "{{\"k\":\"sw\",\"d\":{},\"dty\":{},\"v\":{},\"t\":{},\"line\":{}}}",
                    operand_json(cx, body, did, discr),
                    jstr(&dt),
                    jlist(&vals),
                    jlist(&tg),
                    tl
                )
            }
            TerminatorKind::Return => "{\"k\":\"ret\"}".to_string(),
            TerminatorKind::Unreachable => "{\"k\":\"unreachable\"}".to_string(),
            TerminatorKind::UnwindResume => "{\"k\":\"resume\"}".to_string(),
            TerminatorKind::UnwindTerminate(_) => "{\"k\":\"abort\"}".to_string(),
            TerminatorKind::Drop { place, target, unwind, .. } => {
                let t = place.ty(&body.local_decls, tcx).ty;
                let ts = cx.ty_str(t);
                format!(
                    "{{\"k\":\"drop\",\"p\":{},\"ty\":{},\"t\":{},\"u\":{},\"line\":{}}}",
                    place_json(cx, body, place),
                    jstr(&ts),
                    bt(target),
                    unwind_of(unwind),
                    tl
                )
            }
            TerminatorKind::Assert { cond, expected, msg, target, unwind } => {
                let (k, ops, ts) = assert_json(cx, body, did, msg);
                format!(
                    "{{\"k\":\"assert\",\"cond\":{},\"exp\":{},\"msg\":{},\"ops\":{},\"oty\":{},\"t\":{},\"u\":{},\"line\":{},\"mexp\":{}}}",
                    operand_json(cx, body, did, cond),
                    expected,
                    jstr(&k),
                    jlist(&ops),
                    jstr(&ts),
                    bt(target),
                    unwind_of(unwind),
                    tl,
                    texp
                )
            }
            TerminatorKind::Call { func, args, destination, target, unwind, .. } => {
                let fty = func.ty(&body.local_decls, tcx);
                let mut f: Option<String> = None;
                let mut r: Option<String> = None;
                let mut rk = "none".to_string();
                let mut ga = String::new();
                let mut selfty: Option<String> = None;
                let mut in_trait: Option<String> = None;
                match fty.kind() {
                    ty::FnDef(cdid, cargs) => {
                        f = Some(cx.path(*cdid));
                        ga = pp!(KR, (format!("{:?}", cargs)));
                        if ga.len() > 300 {
                            let mut cut = 300;
                            while !ga.is_char_boundary(cut) {
                                cut -= 1;
                            }
                            ga.truncate(cut);
                        }
                        if let Some(tr) = tcx.trait_of_assoc(*cdid) {
                            in_trait = Some(cx.path(tr));
                            if let Some(a0) = cargs.get(0).and_then(|a| a.as_type()) {
                                selfty = Some(cx.ty_str(a0));
                            }
                        }
                        match Instance::try_resolve(tcx, tenv, *cdid, cargs) {
                            Ok(Some(inst)) => {
                                let (k, d) = match inst.def {
                                    InstanceKind::Item(d) => ("item", Some(d)),
                                    InstanceKind::Virtual(d, _) => ("virtual", Some(d)),
                                    InstanceKind::Intrinsic(d) => ("intrinsic", Some(d)),
                                    InstanceKind::ClosureOnceShim { call_once, .. } => ("closure_once", Some(call_once)),
                                    InstanceKind::FnPtrShim(d, _) => ("fnptr", Some(d)),
                                    InstanceKind::ReifyShim(d, _) => ("reify", Some(d)),
                                    InstanceKind::VTableShim(d) => ("vtshim", Some(d)),
                                    InstanceKind::DropGlue(d, _) => ("dropglue", Some(d)),
                                    InstanceKind::CloneShim(d, _) => ("cloneshim", Some(d)),
                                    _ => ("othershim", None),
                                };
                                rk = k.to_string();
                                if let Some(d) = d {
                                    r = Some(cx.path(d));
                                }
                                // closure_once: the closure itself is the Self type
                                if k == "closure_once" {
                                    if let Some(a0) = cargs.get(0).and_then(|a| a.as_type()) {
                                        if let ty::Closure(cd, _) = a0.kind() {
                                            r = Some(cx.path(*cd));
                                        }
                                    }
                                }
                            }
                            Ok(None) => rk = "unresolved".to_string(),
                            Err(_) => rk = "error".to_string(),
                        }
                    }
                    _ => {
                        rk = "indirect".to_string();
                    }
                }
                let argsj: Vec<String> = args.iter().map(|a| operand_json(cx, body, did, &a.node)).collect();
                let argtys: Vec<String> = args
                    .iter()
                    .map(|a| {
                        let t = a.node.ty(&body.local_decls, tcx);
                        format!("{}", cx.ty_ix(t))
                    })
                    .collect();
                let fop = if f.is_none() { operand_json(cx, body, did, func) } else { "null".to_string() };
                format!(
                    "{{\"k\":\"call\",\"f\":{},\"r\":{},\"rk\":{},\"ga\":{},\"self\":{},\"trait\":{},\"fop\":{},\"args\":{},\"aty\":{},\"dst\":{},\"t\":{},\"u\":{},\"line\":{},\"exp\":{}}}",
                    jopt(&f),
                    jopt(&r),
                    jstr(&rk),
                    jstr(&ga),
                    jopt(&selfty),
                    jopt(&in_trait),
                    fop,
                    jlist(&argsj),
                    jlist(&argtys),
                    place_json(cx, body, destination),
                    target.map(|t| bt(&t)).unwrap_or("null".to_string()),
                    unwind_of(unwind),
                    tl,
                    texp
                )
            }
            TerminatorKind::TailCall { .. } => "{\"k\":\"tailcall\"}".to_string(),
            TerminatorKind::Yield { resume, .. } => format!("{{\"k\":\"goto\",\"t\":{}}}", bt(resume)),
            TerminatorKind::CoroutineDrop => "{\"k\":\"ret\"}".to_string(),
            TerminatorKind::FalseEdge { real_target, .. } => format!("{{\"k\":\"goto\",\"t\":{}}}", bt(real_target)),
            TerminatorKind::FalseUnwind { real_target, .. } => format!("{{\"k\":\"goto\",\"t\":{}}}", bt(real_target)),
            TerminatorKind::InlineAsm { .. } => "{\"k\":\"asm\"}".to_string(),
        };
        blocks.push(format!(
            "{{\"s\":{},\"t\":{},\"cl\":{}}}",
            jlist(&stmts),
            tj,
            data.is_cleanup
        ));
    }
    let mut proms = vec![];
    for pb in tcx.promoted_mir(did).iter() {
        let mut stmts = vec![];
        for data in pb.basic_blocks.iter() {
            for st in data.statements.iter() {
                if let StatementKind::Assign(b) = &st.kind {
                    let (p, rv) = &**b;
                    stmts.push(format!("[{},{},0]", place_json(cx, pb, p), rvalue_json(cx, pb, did, rv)));
                }
            }
        }
        proms.push(jlist(&stmts));
    }
    let _ = write!(out, "\"promoted\":{},", jlist(&proms));
    let _ = write!(out, "\"blocks\":{}}}", jlist(&blocks));
}

fn adt_facts<'tcx>(cx: &mut Cx<'tcx>, did: DefId) -> String {
    let tcx = cx.tcx;
    let adt = tcx.adt_def(did);
    let mut variants = vec![];
    for v in adt.variants().iter() {
        let mut fields = vec![];
        for f in v.fields.iter() {
            let t = tcx.type_of(f.did).instantiate_identity().skip_norm_wip();
            let ts = cx.ty_str(t);
            fields.push(format!(
                "[{},{},{}]",
                jstr(&f.name.to_string()),
                jstr(&ts),
                jstr(if f.vis.is_public() { "pub" } else { "priv" })
            ));
        }
        variants.push(format!("{{\"name\":{},\"fields\":{}}}", jstr(&v.name.to_string()), jlist(&fields)));
    }
    let (line, _) = line_of(tcx, tcx.def_span(did));
    let file = {
        let sp = tcx.def_span(did);
        let lo = tcx.sess.source_map().lookup_char_pos(sp.lo());
        format!("{}", lo.file.name.prefer_local_unconditionally())
    };
    format!(
        "{{\"id\":{},\"kind\":\"{}\",\"file\":{},\"line\":{},\"variants\":{}}}",
        jstr(&cx.path(did)),
        if adt.is_enum() { "enum" } else if adt.is_union() { "union" } else { "struct" },
        jstr(&file),
        line,
        jlist(&variants)
    )
}

fn extract<'tcx>(tcx: TyCtxt<'tcx>, dir: &str) {
    let krate = tcx.crate_name(LOCAL_CRATE).to_string();
    KRATE.with(|k| *k.borrow_mut() = krate.clone());
    let mut cx = Cx { tcx, krate: krate.clone(), types: vec![], type_ix: HashMap::new(), path_cache: HashMap::new() };
    let mut out = String::with_capacity(1 << 24);
    let _ = write!(out, "{{\"crate\":{},", jstr(&krate));

    // functions
    out.push_str("\"fns\":[");
    let mut first = true;
    let mut nfn = 0usize;
    let mut keys: Vec<_> = tcx.mir_keys(()).iter().copied().collect();
    keys.sort_by_key(|k| tcx.def_path_hash(k.to_def_id()));
    for ldid in keys {
        let did = ldid.to_def_id();
        let kind = tcx.def_kind(did);
        if !matches!(kind, DefKind::Fn | DefKind::AssocFn | DefKind::Closure) {
            continue;
        }
        // skip coroutine-closures etc. that have no ordinary body
        if kind == DefKind::Closure && tcx.is_coroutine(did) {
            // still has MIR via optimized_mir; keep
        }
        if tcx.is_constructor(did) {
            continue;
        }
        if !first {
            out.push(',');
        }
        first = false;
        fn_facts(&mut cx, did, &mut out);
        out.push('\n');
        nfn += 1;
    }
    out.push_str("],");

    // ADTs and impls
    let mut adts = vec![];
    let mut impls = vec![];
    let mut traits = vec![];
    for ldid in tcx.hir_crate_items(()).definitions() {
        let did = ldid.to_def_id();
        match tcx.def_kind(did) {
            DefKind::Struct | DefKind::Enum | DefKind::Union => adts.push(adt_facts(&mut cx, did)),
            DefKind::Trait => {
                let mut methods = vec![];
                for it in tcx.associated_items(did).in_definition_order() {
                    if it.is_fn() {
                        methods.push(format!(
                            "[{},{}]",
                            jstr(&cx.path(it.def_id)),
                            it.defaultness(tcx).has_value()
                        ));
                    }
                }
                traits.push(format!("{{\"id\":{},\"methods\":{}}}", jstr(&cx.path(did)), jlist(&methods)));
            }
            DefKind::Impl { of_trait } => {
                let st = tcx.type_of(did).skip_binder();
                let (self_id, self_ty) = match st.kind() {
                    ty::Adt(adt, _) => (Some(cx.path(adt.did())), cx.ty_str(st)),
                    _ => (None, cx.ty_str(st)),
                };
                let mut tr: Option<String> = None;
                let mut trfull: Option<String> = None;
                let mut map = vec![];
                if of_trait {
                    let t = tcx.impl_trait_ref(did).skip_binder();
                    tr = Some(cx.path(t.def_id));
                    trfull = Some(pp!(KR, (format!("{}", t.print_only_trait_path()))));
                    for it in tcx.associated_items(did).in_definition_order() {
                        if it.is_fn() {
                            let ti = tcx.trait_item_of(it.def_id);
                            let tis = ti.map(|d| cx.path(d));
                            map.push(format!("[{},{}]", jopt(&tis), jstr(&cx.path(it.def_id))));
                        }
                    }
                } else {
                    for it in tcx.associated_items(did).in_definition_order() {
                        if it.is_fn() {
                            map.push(format!("[null,{}]", jstr(&cx.path(it.def_id))));
                        }
                    }
                }
                let derived = tcx.is_automatically_derived(did);
                let (line, _) = line_of(tcx, tcx.def_span(did));
                impls.push(format!(
                    "{{\"self\":{},\"self_ty\":{},\"trait\":{},\"trait_full\":{},\"derived\":{},\"line\":{},\"items\":{}}}",
                    jopt(&self_id),
                    jstr(&self_ty),
                    jopt(&tr),
                    jopt(&trfull),
                    derived,
                    line,
                    jlist(&map)
                ));
            }
            _ => {}
        }
    }
    let _ = write!(out, "\"adts\":{},\"impls\":{},\"traits\":{},", jlist(&adts), jlist(&impls), jlist(&traits));
    let tys: Vec<String> = cx.types.iter().map(|t| jstr(t)).collect();
    let _ = write!(out, "\"types\":{},\"nfn\":{}}}", jlist(&tys), nfn);

    let crate_types: Vec<String> = tcx.crate_types().iter().map(|t| format!("{:?}", t)).collect();
    let fname = format!("{}/{}.{}.json", dir, krate, crate_types.join("-").to_lowercase());
    let tmp = format!("{}.tmp{}", fname, std::process::id());
    std::fs::write(&tmp, out).expect("write facts");
    std::fs::rename(&tmp, &fname).expect("rename facts");
}

struct Cb {
    dir: Option<String>,
}

impl Callbacks for Cb {
    fn after_analysis<'tcx>(&mut self, _c: &Compiler, tcx: TyCtxt<'tcx>) -> Compilation {
        if let Some(dir) = &self.dir {
            let name = tcx.crate_name(LOCAL_CRATE).to_string();
            let only = std::env::var("GRAFEO_FACTS_CRATES").unwrap_or_default();
            let wanted = if only.is_empty() {
                name.starts_with("grafeo") || name.starts_with("vfixture")
            } else {
                only.split(',').any(|c| c == name)
            };
            if wanted && name != "build_script_build" {
                extract(tcx, dir);
            }
        }
        Compilation::Continue
    }
}

fn main() {
    let mut args: Vec<String> = std::env::args().collect();
    // RUSTC_WORKSPACE_WRAPPER passes the real rustc as argv[1]
    if args.len() > 1 && (args[1].ends_with("rustc") || args[1].contains("/rustc")) {
        args.remove(1);
    }
    let dir = std::env::var("GRAFEO_FACTS_DIR").ok();
    let mut cb = Cb { dir };
    rustc_driver::run_compiler(&args, &mut cb);
}
