"""panic / trap site inventory from MIR facts (used by C07-R4, C12, C15)"""
import re
from .flow import callee_name

EXPLICIT = re.compile(r"^(core|std)::(panicking|rt)::(panic\w*|begin_panic\w*|assert_failed\w*|unreachable_display|panic_const::\w+)$")
UNWRAPS = {
    "core::option::Option::unwrap": "unwrap", "core::option::Option::expect": "expect",
    "core::result::Result::unwrap": "unwrap", "core::result::Result::expect": "expect",
    "core::result::Result::unwrap_err": "unwrap", "core::result::Result::expect_err": "expect",
    "core::option::unwrap_failed": "unwrap", "core::option::expect_failed": "expect", "core::result::unwrap_failed": "unwrap",
}
ARITH_ASSERT = ("Overflow", "OverflowNeg", "DivisionByZero", "RemainderByZero")
INT_TY = re.compile(r"^&?(u8|u16|u32|u64|u128|usize|i8|i16|i32|i64|i128|isize)$")
OPS_TRAPS = {"add": "Overflow:Add", "sub": "Overflow:Sub", "mul": "Overflow:Mul", "div": "DivisionByZero", "rem": "RemainderByZero",
             "neg": "OverflowNeg", "shl": "Overflow:Shl", "shr": "Overflow:Shr", "add_assign": "Overflow:Add", "sub_assign": "Overflow:Sub",
             "mul_assign": "Overflow:Mul", "div_assign": "DivisionByZero", "rem_assign": "RemainderByZero"}


def own_panic_sites(fn, kinds=("explicit", "unwrap", "expect")):
    """explicit panic sites syntactically in fn: [{'kind','callee','line','block','exp'}]"""
    out = []
    for bi, t in fn.calls():
        c = t["f"] or ""
        rc = callee_name(t)
        k = None
        if EXPLICIT.match(c):
            k = "explicit"
        elif c in UNWRAPS:
            k = UNWRAPS[c]
        elif rc.startswith("core::str::traits::") and rc.endswith("::index") or c == "core::str::slice_error_fail":
            k = "str-slice"
        elif rc.startswith("core::slice::index::") and (rc.endswith("::index") or rc.endswith("_fail") or rc.endswith("::index_mut")):
            k = "slice-index"
        if k and k in kinds:
            out.append({"kind": k, "callee": c, "line": t["line"], "block": bi, "exp": t["exp"], "term": t})
    return out


def arith_traps(fn, int_types=("i64",)):
    """arithmetic trap sites in fn on the given integer types:
       Assert terminators (Overflow/Div/Rem) and operator-trait calls on references to integers"""
    out = []
    for bi, b in enumerate(fn.blocks):
        if b["cl"]:
            continue
        t = b["t"]
        if t["k"] == "assert":
            kind = t["msg"].split(":")[0]
            if kind in ARITH_ASSERT and any(t["oty"].lstrip("&") == it for it in int_types):
                out.append({"kind": t["msg"], "ty": t["oty"], "line": t["line"], "block": bi, "how": "assert", "term": t})
        elif t["k"] == "call":
            c = t["f"] or ""
            if c.startswith("core::ops::arith::") or c.startswith("core::ops::bit::"):
                nm = c.split("::")[-1]
                st = (t.get("self") or "")
                if nm in OPS_TRAPS and INT_TY.match(st) and st.lstrip("&") in int_types:
                    out.append({"kind": OPS_TRAPS[nm], "ty": st, "line": t["line"], "block": bi, "how": "op-call", "term": t})
    return out
