"""Path-level helpers over one function's CFG: which branch outcomes hold on every path to a block
(edge dominance), canonical description of the branch conditions, and value tags (where an operand
comes from: state cells, callee names, parameters, constants)."""
from collections import defaultdict

from .facts import Trace, place_fields, op_place, TRANSPARENT_CALLS, short_id

_STD_ENUMS = {
    "core::option::Option": ["None", "Some"],
    "core::result::Result": ["Ok", "Err"],
    "core::ops::control_flow::ControlFlow": ["Continue", "Break"],
    "core::cmp::Ordering": None,
}

_FLIP = {"Lt": "Gt", "Gt": "Lt", "Le": "Ge", "Ge": "Le", "Eq": "Eq", "Ne": "Ne"}
_NEG = {"Lt": "Ge", "Ge": "Lt", "Gt": "Le", "Le": "Gt", "Eq": "Ne", "Ne": "Eq"}


def dominated_by(fn, a):
    """blocks dominated by a"""
    out = set()
    for b in range(len(fn.blocks)):
        if not fn.blocks[b]["cl"] and fn.dominates(a, b):
            out.add(b)
    return out


def edge_conditions(fn, B):
    """[(switch block a, successor s)] such that every path from entry to B takes edge a->s"""
    out = []
    P = fn.pred()
    S = fn.succ()
    # walk dominators of B
    d = B
    chain = []
    while d != -1:
        chain.append(d)
        nd = fn.idom[d]
        if nd == d:
            break
        d = nd
    for s in chain:
        for a in P[s]:
            t = fn.blocks[a]["t"]
            if t["k"] != "sw":
                continue
            if len(set(t["t"])) < 2:
                continue
            # all other preds of s must be dominated by s (back edges)
            ok = all(p == a or fn.dominates(s, p) for p in P[s])
            if ok and fn.dominates(s, B):
                out.append((a, s))
    return out


class FlowCx:
    def __init__(self, P, fn):
        self.P = P
        self.fn = fn
        self.tr = Trace(fn, P)
        self._tags = {}
        self._sub = {}

    def sub(self, g):
        """FlowCx of another function (closure / creator), cached"""
        c = self._sub.get(g.id)
        if c is None:
            c = self._sub[g.id] = FlowCx(self.P, g)
            c._sub = self._sub
        return c

    def creators(self):
        """[(creator fn, agg rvalue)] for a closure: where it is constructed"""
        fn = self.fn
        out = []
        if fn.kind != "closure" or not fn.parent or fn.parent not in self.P.fns:
            return out
        for g in self.P.family(self.P.fns[fn.parent]):
            for b in g.blocks:
                if b["cl"]:
                    continue
                for st in b["s"]:
                    rv = st[1]
                    if rv[0] == "agg" and rv[1] == "closure" and rv[2] == fn.id:
                        out.append((g, rv))
        return out

    # ---------------------------------------------------------------- tags
    def tags(self, op, depth=40):
        """set of strings describing where the operand may come from"""
        out = set()
        self._tags_op(op, depth, out, set())
        return out

    def _tags_rv_public(self, rv, depth=40):
        out = set()
        self._tags_rv(rv, depth, out, set())
        return out

    def _tags_place(self, pl, depth, out, seen):
        fn = self.fn
        key = (pl[0], tuple(pl[1:]))
        if key in seen or depth < 0:
            return
        seen.add(key)
        fields = place_fields(pl)
        for (name, owner) in fields:
            if owner.startswith("{closure}#"):
                # captured variable: continue in the function that built the closure
                idx = int(owner.split("#")[1])
                out.add("upvar:" + name)
                if depth > 0:
                    for (g, rv) in self.creators():
                        if idx < len(rv[4]):
                            out |= self.sub(g).tags(rv[4][idx], depth - 1)
                continue
            if owner not in ("(tuple)", "?"):
                out.add("cell:%s.%s" % (owner.split("::")[-1] if "::" in owner else owner, name))
                out.add("field:" + name)
        l = pl[0]
        nm = fn.names().get(l)
        if nm:
            out.add("var:" + nm)
        ds = fn.defs().get(l, [])
        if not ds and 1 <= l <= fn.argc:
            out.add("param:%d" % l)
            return
        # tuple / struct look-through: `_8 = (a, b); x = _8.1`
        first_field = None
        for p in pl[1:]:
            if isinstance(p, str) and p.startswith("f:"):
                first_field = p.split(":", 2)
                break
            if p == "*" or (isinstance(p, str) and p.startswith("d:")):
                continue
            break
        for (bi, si, dpl, rv, ln) in ds:
            if len(dpl) > 1:
                # partial assignment `_8.1 = x`: relevant only if it matches our projection
                if first_field and place_fields(dpl) and place_fields(dpl)[0][0] == first_field[1]:
                    self._tags_rv(rv, depth - 1, out, seen)
                continue
            if first_field and rv[0] == "agg":
                ops = rv[4]
                names = rv[5]
                idx = None
                if rv[1] == "tuple" and first_field[1].isdigit():
                    idx = int(first_field[1])
                elif first_field[1] in names:
                    idx = names.index(first_field[1])
                if idx is not None and idx < len(ops):
                    self._tags_op(ops[idx], depth - 1, out, seen)
                    continue
            self._tags_rv(rv, depth - 1, out, seen)

    def _tags_rv(self, rv, depth, out, seen):
        k = rv[0]
        if k == "use":
            self._tags_op(rv[1], depth, out, seen)
        elif k in ("ref", "raw"):
            self._tags_place(rv[2], depth, out, seen)
        elif k == "cast":
            self._tags_op(rv[2], depth, out, seen)
        elif k == "call":
            t = rv[1]
            f = t["f"] or "<indirect>"
            out.add("call:" + _short_callee(t))
            for a in t["args"]:
                self._tags_op(a, depth - 1, out, seen)
        elif k == "agg":
            if rv[1] == "adt":
                out.add("agg:%s::%s" % (rv[2].split("::")[-1], rv[3]))
            if rv[1] == "closure" and rv[2] in self.P.fns and depth > 1:
                out.add("closure:" + short_id(rv[2]))
                for x in self.sub(self.P.fns[rv[2]]).tags(["c", [0]], depth - 2):
                    # parameters of the closure are not parameters of this function
                    out.add("c" + x if x.startswith("param:") else x)
            for a in rv[4]:
                self._tags_op(a, depth - 1, out, seen)
        elif k == "bin":
            out.add("bin:" + rv[1])
            self._tags_op(rv[2], depth - 1, out, seen)
            self._tags_op(rv[3], depth - 1, out, seen)
        elif k == "un":
            out.add("un:" + rv[1])
            self._tags_op(rv[2], depth - 1, out, seen)
        elif k == "discr":
            out.add("discr:" + rv[2].split("::")[-1])
            self._tags_place(rv[1], depth - 1, out, seen)

    def _tags_op(self, op, depth, out, seen):
        if depth < 0:
            return
        if op[0] == "k":
            v = str(op[1])
            if v.startswith("promoted:"):
                i = int(v.split(":")[1])
                if i < len(self.fn.promoted):
                    for st in self.fn.promoted[i]:
                        rv = st[1]
                        if rv[0] == "agg" and rv[1] == "adt":
                            out.add("const:%s::%s" % (rv[2].split("::")[-1], rv[3]))
                            # with its constant payload as well: Some(false) and Some(true) are different constants
                            if len(rv) > 4 and rv[4] and all(o[0] == "k" for o in rv[4]):
                                out.add("const:%s::%s(%s)" % (rv[2].split("::")[-1], rv[3], ",".join(str(o[1]) for o in rv[4])))
                        elif rv[0] == "use" and rv[1][0] == "k":
                            out.add("const:" + str(rv[1][1]))
            else:
                out.add("const:" + v)
        elif op[0] == "fn":
            out.add("fn:" + short_id(op[1]))
        else:
            self._tags_place(op[1], depth, out, seen)

    # ---------------------------------------------------------------- conditions
    def cond_of_switch(self, a):
        """canonical description of the value switched on in block a:
           {'kind': 'cmp', 'op': 'Gt', 'a': tags, 'b': tags, 'neg': False}
           {'kind': 'discr', 'enum': path, 'place_tags': tags}
           {'kind': 'call', 'callee': short, 'args': [tags...], 'neg': bool}
           {'kind': 'other', 'tags': tags}"""
        fn = self.fn
        t = fn.blocks[a]["t"]
        return self._cond_of_op(t["d"], 0)

    def _cond_of_op(self, op, neg, depth=0):
        fn = self.fn
        pl = op_place(op)
        if pl is None:
            return {"kind": "const", "val": op[1], "neg": bool(neg)}
        if len(pl) > 1:
            return {"kind": "other", "tags": self.tags(op), "neg": bool(neg)}
        ds = [d for d in fn.defs().get(pl[0], []) if len(d[2]) == 1]
        if len(ds) != 1 or depth > 8:
            # several defs: short-circuit boolean temporaries (`a && b`) – describe as 'multi'
            subs = []
            for d in ds:
                c = self._cond_of_rv(d[3], neg, depth + 1)
                c["def_block"] = d[0]
                subs.append(c)
            return {"kind": "multi", "subs": subs, "neg": bool(neg)}
        return self._cond_of_rv(ds[0][3], neg, depth + 1)

    def _cond_of_rv(self, rv, neg, depth):
        k = rv[0]
        if k == "use":
            return self._cond_of_op(rv[1], neg, depth)
        if k == "un" and rv[1] == "Not":
            return self._cond_of_op(rv[2], 1 - neg, depth)
        if k == "bin" and rv[1] in _FLIP:
            op = rv[1]
            return {"kind": "cmp", "op": op, "a": self.tags(rv[2]), "b": self.tags(rv[3]), "neg": bool(neg), "ty": rv[4]}
        if k == "discr":
            return {"kind": "discr", "enum": rv[2], "place_tags": self.tags(["c", rv[1]]), "neg": bool(neg)}
        if k == "call":
            t = rv[1]
            nm = _short_callee(t)
            args = [self.tags(a) for a in t["args"]]
            # PartialEq::eq / ne / PartialOrd on workspace or std types are comparisons too
            last = nm.split("::")[-1]
            cmpmap = {"eq": "Eq", "ne": "Ne", "lt": "Lt", "le": "Le", "gt": "Gt", "ge": "Ge"}
            if last in cmpmap and len(args) == 2:
                return {"kind": "cmp", "op": cmpmap[last], "a": args[0], "b": args[1], "neg": bool(neg), "ty": t.get("self") or ""}
            return {"kind": "call", "callee": nm, "args": args, "neg": bool(neg), "term": t}
        if k == "cast":
            return self._cond_of_op(rv[2], neg, depth)
        return {"kind": "other", "tags": set(), "neg": bool(neg)}

    def taken_value(self, a, s):
        """for switch block a and successor s: list of switch values leading to s ('otherwise' for the default)"""
        t = self.fn.blocks[a]["t"]
        vals = []
        for v, tg in zip(t["v"], t["t"][:-1]):
            if tg == s:
                vals.append(v)
        if t["t"][-1] == s:
            vals.append("otherwise")
        return vals

    def facts_at(self, B):
        """list of canonical facts that hold on every path to B:
           ('cmp', op, a_tags, b_tags) with the relation that is TRUE,
           ('variant', enum, variant_name|index, place_tags),
           ('call', callee, truth, args)"""
        out = []
        for (a, s) in edge_conditions(self.fn, B):
            c = self.cond_of_switch(a)
            vals = self.taken_value(a, s)
            t = self.fn.blocks[a]["t"]
            out.extend(self._facts_from(c, vals, t, a))
        return out

    def edge_facts(self, a, s):
        """facts established by taking the edge a->s (a switch block)"""
        t = self.fn.blocks[a]["t"]
        if t["k"] != "sw" or len(set(t["t"])) < 2:
            return []
        return self._facts_from(self.cond_of_switch(a), self.taken_value(a, s), t, a)

    def every_path_has(self, B, pred, depth=6, _seen=None):
        """True when on every path from the entry to block B some fact satisfying `pred` is established: by the facts
        that dominate B, or - at a join - on each incoming edge separately (disjunctive guards such as
        `!(a == MIN && b == -1)` reach the guarded block over two edges with different facts)."""
        if any(pred(x) for x in self.facts_at(B)):
            return True
        if depth == 0:
            return False
        _seen = _seen or set()
        if B in _seen:
            return False
        _seen = _seen | {B}
        preds = [p for p in self.fn.pred()[B] if not self.fn.blocks[p]["cl"]]
        if not preds or B == 0:
            return False
        for p in preds:
            if self.fn.dominates(B, p):
                continue   # back edge: the path already went through B
            if any(pred(x) for x in self.edge_facts(p, B)):
                continue
            if not self.every_path_has(p, pred, depth - 1, _seen):
                return False
        return True

    def _facts_from(self, c, vals, t, a):
        out = []
        isbool = t["dty"] == "bool"
        if c["kind"] == "discr":
            names = self.variant_names(c["enum"])
            allv = list(t["v"])
            if vals == ["otherwise"]:
                excluded = allv
                if names:
                    rest = [n for i, n in enumerate(names) if str(i) not in excluded]
                    for n in rest if len(rest) == 1 else []:
                        out.append(("variant", c["enum"], n, c["place_tags"], a))
                    if len(rest) != 1:
                        out.append(("variant_not", c["enum"], [names[int(v)] for v in excluded if int(v) < len(names)], c["place_tags"], a))
            else:
                for v in vals:
                    if v == "otherwise":
                        continue
                    n = names[int(v)] if names and int(v) < len(names) else v
                    out.append(("variant", c["enum"], n, c["place_tags"], a))
            return out
        if not isbool:
            return [("switch", vals, c.get("tags", set()), a)]
        truth = None
        if vals == ["0"]:
            truth = False
        elif vals == ["otherwise"]:
            truth = True
        if truth is None:
            return out
        if c.get("neg"):
            truth = not truth
        if c["kind"] == "cmp":
            op = c["op"] if truth else _NEG[c["op"]]
            out.append(("cmp", op, c["a"], c["b"], a))
        elif c["kind"] == "call":
            out.append(("call", c["callee"], truth, c["args"], a))
        elif c["kind"] == "multi":
            # `x = a && b` lowered to a temp with two defs: if the temp is TRUE every sub-condition that
            # is not the constant false holds... we cannot know which def reached; only report when all
            # but constant defs agree
            subs = [s for s in c["subs"] if s["kind"] != "const"]
            consts = [s for s in c["subs"] if s["kind"] == "const"]
            if not subs and consts and not getattr(self, "_in_multi", False):
                # `matches!(x, P)` / `a || b` lowered to a bool temp assigned constants in different arms:
                # the temp has the wanted value only if control came through an arm assigning that value,
                # so whatever holds in ALL such arms holds here.
                def cval(k):
                    v = str(k["val"]) in ("1", "true")
                    return (not v) if k.get("neg") else v
                arms = [k["def_block"] for k in consts if cval(k) == truth and "def_block" in k]
                if arms:
                    self._in_multi = True
                    try:
                        per = [self.facts_at(bk) for bk in arms]
                    finally:
                        self._in_multi = False
                    def key(f):
                        return (f[0], str(f[1]), str(f[2]) if not isinstance(f[2], (set, list)) else "", f[-1])
                    common_keys = set(key(f) for f in per[0])
                    for p_ in per[1:]:
                        common_keys &= set(key(f) for f in p_)
                    for f in per[0]:
                        if key(f) in common_keys:
                            out.append(f)
                return out
            if truth and len(subs) == 1 and all(str(k["val"]) in ("0", "false") for k in consts):
                s0 = subs[0]
                if s0["kind"] == "cmp":
                    op = s0["op"] if not s0.get("neg") else _NEG[s0["op"]]
                    out.append(("cmp", op, s0["a"], s0["b"], a))
                elif s0["kind"] == "call":
                    out.append(("call", s0["callee"], not s0.get("neg"), s0["args"], a))
        else:
            out.append(("bool", truth, c.get("tags", set()), a))
        return out

    def variant_names(self, enum):
        if enum in _STD_ENUMS:
            return _STD_ENUMS[enum]
        a = self.P.adts.get(enum)
        if a:
            return [v["name"] for v in a["variants"]]
        return None


def _short_callee(t):
    c = t["r"] if (t["r"] and t["rk"] == "item") else (t["f"] or "<indirect>")
    return short_id(c)


def canon_cmp(op, a, b, left_pred, right_pred):
    """normalise a comparison so that the operand satisfying left_pred is on the left.
    returns the operator or None if the operands do not match the two predicates"""
    if left_pred(a) and right_pred(b):
        return op
    if left_pred(b) and right_pred(a):
        return _FLIP[op]
    return None


def find_aggregates(fn, adt_suffix, variant=None):
    """[(block, stmt index, rv, line)] constructing the given ADT (variant)"""
    out = []
    for bi, b in enumerate(fn.blocks):
        if b["cl"]:
            continue
        for si, st in enumerate(b["s"]):
            rv = st[1]
            if rv[0] == "agg" and rv[1] == "adt" and (rv[2] == adt_suffix or rv[2].endswith("::" + adt_suffix)):
                if variant is None or rv[3] == variant:
                    out.append((bi, si, rv, st[2]))
    return out


def find_calls(fn, pred):
    """[(block, term)] for call terminators whose resolved-or-declared callee satisfies pred(str)"""
    out = []
    for bi, t in fn.calls():
        c = t["r"] if (t["r"] and t["rk"] in ("item", "closure_once")) else (t["f"] or "")
        if pred(c) or (t["f"] and pred(t["f"])):
            out.append((bi, t))
    return out


def callee_name(t):
    return t["r"] if (t["r"] and t["rk"] in ("item", "closure_once")) else (t["f"] or "")


def return_table(P, fn):
    """decision table of a bool/small function: for every whole assignment to the return place,
    [(value description, facts holding there, block, line)].
    value: ('const', v) | ('cmp', op, a_tags, b_tags) | ('call', short callee, [arg tags]) | ('other', tags)"""
    cx = FlowCx(P, fn)
    out = []
    for bi, b in enumerate(fn.blocks):
        if b["cl"]:
            continue
        for st in b["s"]:
            pl, rv, ln = st
            if pl != [0] or rv[0] == "dead":
                continue
            out.append((_value_desc(cx, rv), cx.facts_at(bi), bi, ln))
        t = b["t"]
        if t["k"] == "call" and t["dst"] == [0]:
            out.append((_value_desc(cx, ["call", t]), cx.facts_at(bi), bi, t["line"]))
    return out


def _value_desc(cx, rv):
    k = rv[0]
    if k == "use":
        op = rv[1]
        if op[0] == "k":
            return ("const", str(op[1]))
        pl = op[1]
        if len(pl) == 1:
            ds = [d for d in cx.fn.defs().get(pl[0], []) if len(d[2]) == 1]
            if len(ds) == 1:
                return _value_desc(cx, ds[0][3])
            if len(ds) > 1:
                return ("multi", [_value_desc(cx, d[3]) for d in ds])
        return ("other", cx.tags(op))
    if k == "bin" and rv[1] in _FLIP:
        return ("cmp", rv[1], cx.tags(rv[2]), cx.tags(rv[3]))
    if k == "un" and rv[1] == "Not":
        v = _value_desc(cx, ["use", rv[2]])
        if v[0] == "cmp":
            return ("cmp", _NEG[v[1]], v[2], v[3])
        return ("not", v)
    if k == "call":
        t = rv[1]
        nm = _short_callee(t)
        last = nm.split("::")[-1]
        args = [cx.tags(a) for a in t["args"]]
        cmpmap = {"eq": "Eq", "ne": "Ne", "lt": "Lt", "le": "Le", "gt": "Gt", "ge": "Ge"}
        if last in cmpmap and len(args) == 2:
            return ("cmp", cmpmap[last], args[0], args[1])
        return ("call", nm, args)
    if k == "cast":
        return _value_desc(cx, ["use", rv[2]])
    return ("other", set())


def bool_cases(cx, op, want, depth=0, _seen=None):
    """the ways in which the boolean operand `op` of cx.fn evaluates to `want`: a list of fact lists (each list holds the
    facts that dominate the deciding definition plus the deciding comparison itself), or None when some definition is
    not a constant, comparison, negation or copy. `a && b`, `a || b`, `!x`, `matches!` and PartialEq calls are followed
    through the temporaries MIR lowers them to."""
    fn = cx.fn
    if op[0] == "k":
        v = str(op[1]) in ("1", "true")
        return [[]] if v == want else []
    if depth > 12 or op[0] not in ("m", "c") or len(op[1]) != 1:
        return None
    _seen = _seen or frozenset()
    loc = op[1][0]
    if loc in _seen:
        return None
    _seen = _seen | {loc}
    ds = [d for d in fn.defs().get(loc, []) if len(d[2]) == 1]
    if not ds:
        return None
    out = []
    cmpmap = {"eq": "Eq", "ne": "Ne", "lt": "Lt", "le": "Le", "gt": "Gt", "ge": "Ge"}
    for (bi, si, pl, rv, ln) in ds:
        here = list(cx.facts_at(bi))
        if rv[0] == "use":
            sub = bool_cases(cx, rv[1], want, depth + 1, _seen)
            if sub is None:
                return None
            out += [here + c for c in sub]
        elif rv[0] == "un" and rv[1] == "Not":
            sub = bool_cases(cx, rv[2], not want, depth + 1, _seen)
            if sub is None:
                return None
            out += [here + c for c in sub]
        elif rv[0] == "bin" and rv[1] in _NEG:
            o = rv[1] if want else _NEG[rv[1]]
            out.append(here + [("cmp", o, cx.tags(rv[2]), cx.tags(rv[3]), bi)])
        elif rv[0] == "call":
            t = rv[1]
            last = _short_callee(t).split("::")[-1]
            if last in cmpmap and len(t["args"]) == 2:
                o = cmpmap[last] if want else _NEG[cmpmap[last]]
                out.append(here + [("cmp", o, cx.tags(t["args"][0]), cx.tags(t["args"][1]), bi)])
            else:
                return None
        else:
            return None
    return out
