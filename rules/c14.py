"""C14 - every access path to the property graph tells the same story (DESIGN §5 C14)."""
from .facts import short_id, CheckerError, must_pass
from .flow import FlowCx, callee_name
from . import common

EXPLANATION = (
    "Decides structural necessary conditions of access-path agreement: (R1) per LpgStore mutator, the set of store "
    "cells it writes (transitively) contains every derived structure that must change with the primary data "
    "(maintenance table: label index, node-label map, adjacency in both directions, property storage, property "
    "indexes, id allocators); (R1a) forward and backward adjacency are updated with mirrored endpoints; (R2) the "
    "counting and enumerating accessors read the same clock; (R4) a PropertyColumn method that can shrink `values` "
    "marks the zone map dirty or rebuilds it, and inserts widen it; (R3) when an entity moves between two property-index "
    "buckets the removal precedes the insertion; (R5) adjacency reads go through one iterator that covers cold, hot and "
    "delta tiers and filters deleted edges, and compaction moves entries between tiers without dropping them. "
    "(R6) zone-map predicates answer no-match only on a definite order; R4: a caller-supplied value is inserted only with the summary widened on every path (a dirty flag alone counts for removals only). "
    "(R2b) whole-graph enumerators and counters take their ids from the primary version table, never from a derived side table. "
    "(R8) no function enumerates a filtered view of a sequence and the sequence itself (two index spaces). "
    "Value-level equality of the access paths is not decided.")
ASSUMPTIONS = ["the maintenance table in rules/c14.py (one row per mutator, confirmed by reading store.rs)"]

L = common.LPG
TABLE = {
    "create_node_versioned": {"nodes", "node_labels", "label_index", "next_node_id"},
    "create_node_with_id": {"nodes", "node_labels", "label_index", "next_node_id"},
    "create_node_with_props_versioned": {"nodes", "node_labels", "label_index", "next_node_id", "node_properties", "property_indexes"},
    "delete_node_at_epoch": {"nodes", "node_labels", "label_index", "node_properties", "property_indexes"},
    "create_edge_versioned": {"edges", "forward_adj", "backward_adj", "next_edge_id"},
    "create_edge_with_id": {"edges", "forward_adj", "backward_adj", "next_edge_id"},
    "delete_edge_at_epoch": {"edges", "forward_adj", "backward_adj", "edge_properties"},
    "delete_node_edges": {"edges", "forward_adj", "backward_adj", "edge_properties"},
    "add_label": {"node_labels", "label_index"},
    "remove_label": {"node_labels", "label_index"},
    "set_node_property": {"node_properties", "property_indexes"},
    "remove_node_property": {"node_properties", "property_indexes"},
    "set_edge_property": {"edge_properties"},
    "remove_edge_property": {"edge_properties"},
}


def run(ctx):
    P = ctx.program()
    E = ctx.effects()
    common.check_classification(P)
    n = 0
    alias = common.versioned_cells(P)
    for m, req in sorted(TABLE.items()):
        f = P.fn("LpgStore::" + m)
        W, _ = E.closure_sets([f])
        Wl = {c[1] for c in W if c[0] == L}
        for cell in sorted(alias.get(c_, c_) for c_ in req):
            n += 1
            ctx.ob("R1", "LpgStore::%s#%s" % (m, cell), cell in Wl,
                   what="LpgStore::%s does not maintain LpgStore.%s: lookups through that structure disagree with the primary data "
                        "after this mutation" % (m, cell), where=f.loc())
    ctx.floor("R1", n, 40, "maintenance obligations")

    adjacency_mirrored(ctx, P, "R1a", ("create_edge_versioned", "create_edge_with_id", "delete_edge_at_epoch"))

    common.index_move_order(ctx, P, "R3")

    # ---- R5 adjacency reads cover every storage tier and skip deleted edges
    AL = "grafeo_core::index::adjacency::AdjacencyList"
    it = P.fn("AdjacencyList::iter")
    acc = []
    for g in P.family(it):
        acc += E.own_acc(g)
    for cell in ("cold_chunks", "hot_chunks", "delta_inserts", "deleted"):
        ctx.ob("R5", "AdjacencyList::iter#%s" % cell, any(a.cell == (AL, cell) for a in acc),
               what="AdjacencyList::iter does not read `%s`: neighbour lists and degrees miss live edges (or list deleted ones)" % cell,
               where=it.loc())
    filt_ok = any(callee_name(t).endswith("::contains") for g in P.family(it) if g.kind == "closure" for bi, t in g.calls()) and \
        any((t["f"] or "").endswith("Iterator::filter") for bi, t in it.calls())
    ctx.ob("R5", "AdjacencyList::iter#filters-deleted", filt_ok,
           what="AdjacencyList::iter does not filter its entries through the `deleted` set", where=it.loc())
    for nm in ("neighbors", "degree"):
        f = P.fn("AdjacencyList::" + nm)
        ctx.ob("R5", "AdjacencyList::%s#through-iter" % nm, it.id in P.reach([f]),
               what="AdjacencyList::%s does not go through AdjacencyList::iter (tiers / deleted filter bypassed)" % nm, where=f.loc())
    for nm in ("edges_from", "neighbors", "out_degree"):
        f = P.fn("ChunkedAdjacency::" + nm)
        ctx.ob("R5", "ChunkedAdjacency::%s#through-iter" % nm, it.id in P.reach([f]),
               what="ChunkedAdjacency::%s does not go through AdjacencyList::iter (tiers / deleted filter bypassed)" % nm, where=f.loc())
    # compaction moves entries, it never drops them: whatever is taken out of a tier is pushed into another
    for nm, src, dsts in (("compact", "delta_inserts", ("hot_chunks",)), ("maybe_compress_to_cold", "hot_chunks", ("cold_chunks",)),
                          ("freeze_all", "hot_chunks", ("cold_chunks",))):
        f = P.fn("AdjacencyList::" + nm)
        a2 = []
        for g in P.family(f):
            a2 += E.own_acc(g)
        takes = any(a.cell == (AL, src) and E.is_write(a) for a in a2)
        puts = all(any(a.cell == (AL, d) and E.is_write(a) and any(o.split("::")[-1] in ("push", "extend", "insert") for o in a.ops) for a in a2) for d in dsts)
        ctx.ob("R5", "AdjacencyList::%s#moves" % nm, takes and puts,
               what="AdjacencyList::%s takes entries out of `%s` without pushing them into %s" % (nm, src, dsts), where=f.loc())

    # tombstones outlive the entries they hide: compaction only moves entries between tiers, it never removes a deleted
    # entry physically, so the `deleted` set may only shrink in a function that also rebuilds (clears / retains / replaces)
    # every tier that can still hold the entry. Clearing it after draining the delta buffer resurrects every deleted edge
    # that an earlier compaction had already moved into a chunk.
    SHRINK = ("clear", "remove", "retain", "drain", "take", "swap_remove", "pop", "truncate")
    nw = 0
    for g in sorted(P.fns.values(), key=lambda g: g.id):
        if "index::adjacency" not in g.id or "::tests::" in g.id:
            continue
        a3 = E.own_acc(g)
        dw = [a for a in a3 if a.cell == (AL, "deleted") and E.is_write(a)]
        if not dw:
            continue
        nw += 1
        shr = [a for a in dw if any(o.split("::")[-1] in SHRINK for o in a.ops) or not a.ops]
        # removing exactly the tombstone of an entry that is being dropped from the delta buffer (never materialised in a chunk)
        # is sound: a `remove(x)` whose argument comes out of the drained delta buffer is not a shrink in the rule's sense
        if shr and all(set(o.split("::")[-1] for o in a.ops) <= {"remove", "contains"} for a in shr):
            gx3 = FlowCx(P, g)
            rem = [t for bi, t in g.calls() if callee_name(t).split("::")[-1] == "remove" and t["args"] and "cell:AdjacencyList.deleted" in gx3.tags(t["args"][0])]
            if rem and all(len(t["args"]) > 1 and any(x.endswith("::drain") or x == "cell:AdjacencyList.delta_inserts" for x in gx3.tags(t["args"][1])) for t in rem):
                ctx.ob("R5", "%s#tombstones-outlive-entries" % short_id(g.id), True,
                       what="only the tombstones of entries dropped from the delta buffer are removed", where=g.loc())
                continue
        if not shr:
            continue
        a4 = []
        for h in P.family(g):
            a4 += E.own_acc(h)
        rebuilt = all(any(a.cell == (AL, tier) and E.is_write(a) and (not a.ops or any(o.split("::")[-1] in SHRINK for o in a.ops)) for a in a4)
                      for tier in ("hot_chunks", "cold_chunks"))
        ctx.ob("R5", "%s#tombstones-outlive-entries" % short_id(g.id), rebuilt,
               what="%s shrinks the tombstone set `deleted` without rebuilding the hot and cold chunks: an edge deleted after an earlier "
                    "compaction is still stored in a chunk, so neighbour lists and degrees show it again" % short_id(g.id), where=g.loc())
    ctx.floor("R5", nw, 1, "functions writing AdjacencyList.deleted")

    # ---- R2 counts and enumerators share one clock
    clocks = {}
    for m in ("node_count", "edge_count", "all_nodes", "all_edges", "node_ids"):
        f = P.fn("LpgStore::" + m)
        _, R = E.closure_sets([f])
        clocks[m] = sorted(c[1] for c in R if c[0] == L and common.LPG_CELLS.get(c[1]) == "clock")
    ctx.ob("R2", "count-vs-enumerate-clock", len({tuple(v) for v in clocks.values()}) == 1,
           what="counting and enumerating accessors consult different clocks: %s" % clocks, where=P.fn("LpgStore::node_count").loc())

    # ---- R2b whole-graph enumerators and counters draw their entity ids from the primary version table
    enumerators_use_primary(ctx, P, E, "R2b")

    # ---- R8 positions of a filtered view are not positions of the sequence: a function that enumerates a filtered /
    # flattened / reversed view of a sequence and also enumerates the sequence itself works with two index spaces. The
    # multi-condition lookup remembers the position of its start condition to skip it later; taken from a filtered view
    # it skips (leaves unchecked) another condition, and the index path returns nodes a scan would not.
    positions_comparable(ctx, P, "R8")

    # ---- R4 conservative summaries
    PC = "grafeo_core::graph::lpg::property::PropertyColumn"
    n4 = 0
    for f in P.methods_of("PropertyColumn"):
        if f.impl_self != PC or f.impl_trait:
            continue
        acc = []
        for g in P.family(f):
            acc += E.own_acc(g)
        shr = [a for a in acc if a.cell == (PC, "values") and a.kind == "W" and any(o.split("::")[-1] in ("remove", "retain", "clear", "drain", "remove_entry") for o in a.ops)]
        grow = [a for a in acc if a.cell == (PC, "values") and a.kind == "W" and any(o.split("::")[-1] in ("insert",) for o in a.ops)]
        callees = set()
        for g in P.family(f):
            for bi, t in g.calls():
                callees.add(callee_name(t).split("::")[-1])
        if shr:
            n4 += 1
            dirty = any(a.cell == (PC, "zone_map_dirty") and a.kind == "W" for a in acc) or "rebuild_zone_map" in callees
            ctx.ob("R4", "PropertyColumn::%s#shrink" % f.id.split("::")[-1], dirty,
                   what="PropertyColumn::%s can remove values but neither marks the zone map dirty nor rebuilds it" % f.id.split("::")[-1], where=f.loc())
        if grow:
            # only insertions of a value supplied by the caller can fall outside the current summary
            ext = False
            unwidened = []
            for g in P.family(f):
                gx = FlowCx(P, g)
                wd = {bi for bi, t in g.calls() if callee_name(t).split("::")[-1] in ("update_zone_map_on_insert", "rebuild_zone_map")}
                wd |= {a.block for a in E.own_acc(g) if a.cell == (PC, "zone_map") and a.kind == "W"}
                for bi, t in g.calls():
                    if callee_name(t).split("::")[-1] == "insert" and t["args"] and "cell:PropertyColumn.values" in gx.tags(t["args"][0]):
                        vt = set()
                        for a in t["args"][1:]:
                            vt |= gx.tags(a)
                        if any(x.startswith("param:") and x != "param:1" for x in vt):
                            ext = True
                            # the summary is widened on every path through this insertion: before it, or after it
                            before = must_pass(g, 0, wd, {bi})
                            after = bool(wd) and must_pass(g, t["t"], wd, set(g.exits())) if t.get("t") is not None else False
                            if not (before or after):
                                unwidened.append(g.loc(t["line"]))
            if ext:
                n4 += 1
                # Marking the summary dirty is only conservative for removals (stale bounds are a superset). For an added
                # value it would be conservative only if every reader of min/max honoured the flag; the zone_map() accessor
                # and the range path read the bounds directly, so the flag alone does not count here.
                readers = [g for g in P.fns.values() if g.krate == "grafeo_core" and "::tests::" not in g.id and
                           any(a.cell == (PC, "zone_map") and a.kind in ("R", "PASS") for a in E.own_acc(g))]
                honoured = bool(readers) and all(any(a.cell == (PC, "zone_map_dirty") and a.kind == "R" for a in E.own_acc(g)) for g in readers
                                                 if g.id.split("::")[-1] not in ("update_zone_map_on_insert", "rebuild_zone_map"))
                dirty_w = any(a.cell == (PC, "zone_map_dirty") and a.kind == "W" for a in acc)
                widen = not unwidened or (dirty_w and honoured)
                ctx.ob("R4", "PropertyColumn::%s#grow" % f.id.split("::")[-1], widen,
                       what="PropertyColumn::%s can add values without widening the zone map: min/max pruning can claim 'no match' for an existing value"
                            % f.id.split("::")[-1], where=f.loc())
    ctx.floor("R4", n4, 2, "PropertyColumn methods that change `values`")
    # ---- R6 zone-map predicates say 'no' only on a definite order (rules/c14.py zone_map_definite_no)
    zone_map_definite_no(ctx, ctx.program(), "R6")

def zone_map_definite_no(ctx, P, rule):
    """min/max pruning answers 'definitely no match' only on a definite order: after comparing the probe with a bound, a
    zone-map predicate returns false only on paths where compare_values produced Some(<a definite Ordering>). An
    incomparable pair (None: different value types, NaN) must answer 'might match', because the bounds of a mixed-type
    column only describe the values that could be ordered (shared by C10 and C14)."""
    from .flow import return_table
    n = 0
    for f in sorted(P.methods_of("ZoneMapEntry"), key=lambda f: f.id):
        if not f.id.split("::")[-1].startswith("might_contain") or f.kind == "closure":
            continue
        cmp_blocks = [bi for bi, t in f.calls() if callee_name(t).endswith("zone_map::compare_values")]
        if not cmp_blocks:
            continue
        n += 1
        after = set()
        for b in cmp_blocks:
            after |= set(f.reachable_blocks(b))
        bad = []
        for v, facts, bi, ln in return_table(P, f):
            if not (v[0] == "const" and v[1] in ("0", "false")) or bi not in after:
                continue
            # an order was determined: the comparison result is known to be Some(..) (matched on, unwrapped by let-else or
            # `?`), or one of its Ordering variants
            definite = any(x[0] == "variant" and any(t.endswith("compare_values") for t in x[3]) and
                           ((x[1] == "core::cmp::Ordering") or (x[1] == "core::option::Option" and x[2] == "Some")) for x in facts)
            if not definite:
                bad.append(ln)
        ctx.ob(rule, "%s#no-only-on-definite-order" % short_id(f.id), not bad,
               what="%s answers 'no match' (line %s) on a path where the comparison of the probe with the bound has not produced a "
                    "definite order (incomparable values included): a chunk holding matching values of another type is pruned, and "
                    "the range / filter path returns fewer rows than a scan" % (short_id(f.id), bad), where=f.loc(bad[0] if bad else None))
    ctx.floor(rule, n, 3, "zone-map predicates that compare a probe with min/max")


def enumerators_use_primary(ctx, P, E, rule):
    """node_count / node_ids / all_nodes (edge_count / all_edges) enumerate the keys of the primary version table
    (LpgStore.nodes / .edges, or the tiered version indexes). A derived side table (label map, label index, property
    columns, adjacency) is not guaranteed to have an entry for every live entity, so an enumerator that takes its ids
    from one silently skips entities - in the copy paths of export / save / to_memory the copy then lacks them
    (shared by C07 and C14)."""
    L = common.LPG
    vc = common.versioned_cells(P)
    n = 0
    for m, role in (("node_count", "nodes"), ("node_ids", "nodes"), ("all_nodes", "nodes"), ("edge_count", "edges"), ("all_edges", "edges")):
        f = P.fn("LpgStore::" + m)
        n += 1
        own = []
        for g in P.family(f):
            own += [a for a in E.own_acc(g) if a.cell[0] == L]
        reads_primary = any(a.cell[1] == vc[role] for a in own)
        if not reads_primary:
            # the ids may come from another enumerator of the store (all_nodes built on node_ids)
            _, Rt = E.closure_sets([f], edge_filter=lambda a_, b_: "::lpg::store::LpgStore::" in b_)
            reads_primary = (L, vc[role]) in Rt and not any(common.LPG_CELLS.get(a.cell[1]) in ("index", "data") for a in own)
        side = sorted({a.cell[1] for a in own if common.LPG_CELLS.get(a.cell[1]) in ("index", "data") and a.cell[1] != vc[role]})
        ctx.ob(rule, "LpgStore::%s#ids-from-primary" % m, reads_primary and not side,
               what="LpgStore::%s %s: entities without an entry there are skipped (%s)"
                    % (m, ("takes its ids from the derived structure(s) %s instead of LpgStore.%s" % (side, vc[role])) if not reads_primary
                       else ("also reads derived structure(s) %s while enumerating" % side),
                       "export / save / to_memory copy what this enumerates" if m.startswith("all_") else "counts and scans disagree"),
               where=f.loc())
    ctx.floor(rule, n, 5, "whole-graph enumerators")


def positions_comparable(ctx, P, rule):
    SHIFT = ("filter", "filter_map", "skip_while", "flat_map", "flatten", "rev")
    nsite = 0
    for f in sorted(P.fns.values(), key=lambda f: f.id):
        if f.krate not in ("grafeo_core", "grafeo_engine") or "::tests::" in f.id:
            continue
        en = [(bi, t) for bi, t in f.calls() if callee_name(t).endswith("Iterator::enumerate")]
        if not en:
            continue
        nsite += len(en)
        if len(en) < 2:
            continue
        fx = FlowCx(P, f)
        views = []
        for bi, t in en:
            tg = fx.tags(t["args"][0])
            shifted = sorted({x.split("::")[-1] for x in tg if x.startswith("call:") and x.split("::")[-1] in SHIFT})
            roots = {x for x in tg if x.startswith("param:") and x != "param:1"}
            views.append((t["line"], shifted, roots))
        for (l1, s1, r1) in views:
            for (l2, s2, r2) in views:
                if s1 and not s2 and (r1 & r2):
                    ctx.ob(rule, "%s#enumerate-%s-vs-plain" % (short_id(f.id), "+".join(s1)), False,
                           what="%s enumerates a %s view of %s (line %d) and the sequence itself (line %d): a position remembered from "
                                "the first does not name the same element in the second, so the wrong element is skipped / selected"
                                % (short_id(f.id), "/".join(s1), sorted(r1 & r2), l1, l2), where=f.loc(l1))
    ctx.floor(rule, nsite, 40, "enumerate() call sites inspected")
    ctx.ob(rule, "no-mixed-index-spaces", True, what="no function mixes positions of a filtered view with positions of the sequence", where="")


def adjacency_mirrored(ctx, P, rule, methods, floor=3):
    # ---- R1a mirrored endpoints in forward / backward adjacency
    adj_fns = {"add_edge", "mark_deleted"}
    nn = 0
    for m in methods:
        f = P.fn("LpgStore::" + m)
        fx = FlowCx(P, f)
        fw, bw = [], []
        for bi, t in f.calls():
            c = callee_name(t)
            if c.startswith("grafeo_core::index::adjacency::ChunkedAdjacency::") and c.split("::")[-1] in adj_fns:
                rt = fx.tags(t["args"][0])
                node_arg = fx.tags(t["args"][1])
                if "cell:LpgStore.forward_adj" in rt:
                    fw.append((t, node_arg))
                elif "cell:LpgStore.backward_adj" in rt:
                    bw.append((t, node_arg))
        if not fw and not bw:
            raise CheckerError("C14-R1a: adjacency calls not found in LpgStore::%s" % m)
        ctx.ob(rule, "LpgStore::%s#both-directions" % m, bool(fw) and bool(bw),
               what="LpgStore::%s updates the %s adjacency but not the %s one: outgoing and incoming neighbour lists disagree with the "
                    "edge set" % (m, "forward" if fw else "backward", "backward" if fw else "forward"), where=f.loc())
        if not fw or not bw:
            continue
        # the two directions are updated under the same conditions: whatever the backward update hangs on beyond "the backward
        # adjacency exists" (Option::Some of the field), the forward update hangs on too - a backward update that is skipped
        # for some edges (self-loops, say) leaves incoming lists and degrees without edges the forward side lists
        def _conds(t):
            bi_ = [b for b, tt in f.calls() if tt is t][0]
            out = set()
            for x in fx.facts_at(bi_):
                if x[0] == "variant" and x[1] == "core::option::Option" and x[2] == "Some" and "cell:LpgStore.backward_adj" in str(x[3]):
                    continue
                out.add((x[0], str(x[1]), str(x[2])))
            return out
        for (t2, a2) in bw:
            extra = _conds(t2) - set().union(*[_conds(t1) for (t1, a1) in fw])
            ctx.ob(rule, "LpgStore::%s#backward-under-same-conditions" % m, not extra,
                   what="LpgStore::%s updates the backward adjacency only under a condition the forward update does not have (%s): for the "
                        "edges that fail it, incoming neighbour lists, in-degrees and undirected matches disagree with the edge set"
                        % (m, sorted(extra)[:2]), where=f.loc(t2["line"]))
        for (t1, a1) in fw:
            for (t2, a2) in bw:
                nn += 1
                # the first endpoint handed to the two directions must come from different sources
                k1 = {x for x in a1 if x.startswith(("param:", "cell:EdgeRecord."))}
                k2 = {x for x in a2 if x.startswith(("param:", "cell:EdgeRecord."))}
                d1, d2 = k1 - k2, k2 - k1
                ok = bool(d1) and bool(d2)
                # and where the record field is visible, forward keys on src, backward on dst
                if "cell:EdgeRecord.src" in (k1 | k2) or "cell:EdgeRecord.dst" in (k1 | k2):
                    ok = ok and "cell:EdgeRecord.src" in d1 and "cell:EdgeRecord.dst" in d2
                ctx.ob(rule, "LpgStore::%s#%s" % (m, callee_name(t1).split("::")[-1]), ok,
                       what="LpgStore::%s keys the forward and the backward adjacency with the same endpoint (or the wrong one): "
                            "outgoing and incoming neighbour lists disagree with the edge set" % m, where=f.loc(t1["line"]))
    ctx.floor(rule, nn, floor, "forward/backward adjacency call pairs")

