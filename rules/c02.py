"""C02 - commit and rollback are all-or-nothing (DESIGN §5 C02)."""
from .facts import short_id, must_pass
from .flow import FlowCx, find_calls, callee_name
from .cells import opshort
from . import common

EXPLANATION = (
    "Decides structural necessary conditions of atomicity: (R1) every store cell a transactional mutation writes is "
    "also written by Session::rollback (effect-set inclusion over the call graph, per cell); (R1b) on transactional "
    "paths version chains are only changed through the transaction-tagged API that rollback can undo; (R1c) the "
    "rollback routine removes exactly the versions created by the rolled-back transaction; (R2) in Session::commit "
    "nothing with a write effect on the stores precedes the success of validation; (R3) every failure exit of "
    "validation passes through the discard routines; (R4) a dropped Session rolls back (Drop impl reaching the "
    "rollback routines); (R5) TxInfo.state only moves Active->Committed/Aborted; (R6) the RDF transaction buffer is applied "
    "in issue order (no reordering combinator between the buffer and the apply loop); (R8) MERGE returns a candidate from the label index only after a successful version-chain lookup of it; (R7) the session's direct mutators "
    "create versions tagged with the context of get_transaction_context; (R1r) RDF operators touch the committed triple set "
    "directly only when no transaction is open. R1c also: every path through the undo routine looks at each versioned structure; (R3b) the success arm of Session::commit applies the RDF buffer and advances the store clock on every path; (R3c) Session::rollback discards in both stores before it marks the transaction aborted. "
    "insert_in_tx / remove_in_tx append to the buffer on every path (R6 always-buffers). "
    "It does not run transactions.")
ASSUMPTIONS = [
    "cell classification table in rules/common.py (allocators and advisory statistics are exempt from rollback coverage)",
    "virtual calls fan out to every implementation; an operator's own effects exclude its child operators",
]

EXEMPT = ("allocator", "advisory", "config", "clock", "payload")
R1B_EXCEPT = {
    ("LpgStore::create_node_with_props_versioned", "latest_mut"):
        "applies to the node id allocated by this very call: the latest version is the one this transaction just added, "
        "which remove_versions_by discards as a whole",
}
UNDOABLE_UNTAGGED = ("grafeo_common::mvcc::VersionChain::mark_deleted", "grafeo_common::mvcc::VersionChain::latest_mut",
                     "grafeo_common::mvcc::VersionIndex::mark_deleted")


def run(ctx):
    P = ctx.program()
    E = ctx.effects()
    common.check_classification(P)
    filt = common.no_child_operator(P)
    rollback = P.fn("Session::rollback")
    Wrb, _ = E.closure_sets([rollback])

    # ---- R1 rollback coverage, per cell
    muts = common.mutation_operator_nexts(P) + common.session_fns(P, common.SESSION_DIRECT_MUT, 3)
    rdf_ops = [f for f in P.fns.values() if f.impl_trait and f.impl_trait.endswith("::Operator") and f.id.endswith("::next")
               and f.impl_self and f.impl_self.split("::")[-1].startswith("Rdf") and f.kind != "closure"]
    ctx.floor("R1", len(muts), 11, "LPG transactional mutators")
    ctx.floor("R1", len(rdf_ops), 6, "RDF operators")
    by_cell = {}
    reach_cache = {}
    for m in muts:
        W, _ = E.closure_sets([m], edge_filter=filt)
        for c in W:
            by_cell.setdefault(c, []).append(short_id(m.id))
    n_cells = 0
    for (owner, name), who in sorted(by_cell.items()):
        if owner == common.LPG:
            cls = common.LPG_CELLS[name]
        elif owner == common.RDF:
            cls = common.RDF_CELLS[name]
        else:
            continue
        if cls in EXEMPT:
            continue
        n_cells += 1
        ok = (owner, name) in Wrb
        ctx.ob("R1", "cell:%s.%s" % (owner.split("::")[-1], name), ok,
               what="%s.%s (%s) is written by transactional mutations %s but Session::rollback has no write effect on it: "
                    "a rolled-back change stays visible through this structure" % (owner.split("::")[-1], name, cls, sorted(set(who))[:6]),
               where=rollback.loc(), detail={"writers": sorted(set(who))})
    ctx.floor("R1", n_cells, 10, "non-exempt cells written by transactional mutations")

    # ---- R1r RDF: inside a transaction, triples change only through the transaction buffer (which
    # rollback_tx discards). A direct RdfStore::insert/remove/clear in an operator must be
    # control-dependent on the operator's transaction id being None.
    direct = {P.fn("RdfStore::insert").id: "insert", P.fn("RdfStore::remove").id: "remove", P.fn("RdfStore::clear").id: "clear"}
    nsite = 0
    for m in rdf_ops:
        for g in P.family(m):
            gx = FlowCx(P, g)
            k = 0
            for (bi, t) in g.calls():
                nm = callee_name(t)
                if nm not in direct:
                    continue
                nsite += 1
                ok = any(f[0] == "variant" and f[1] == "core::option::Option" and f[2] == "None" and common.has_txid_cell(P, f[3])
                         for f in gx.facts_at(bi))
                ctx.ob("R1r", "%s#%s[%d]" % (short_id(g.id), direct[nm], k), ok,
                       what="%s applies RdfStore::%s directly to the committed triple set without testing that no "
                            "transaction is open: inside a transaction the change cannot be rolled back and is visible "
                            "to everyone before commit" % (short_id(g.id), direct[nm]), where=g.loc(t["line"]))
                k += 1
    ctx.floor("R1r", nsite, 7, "direct RdfStore insert/remove/clear sites in RDF operators")

    # ---- R1b only tx-tagged version writes on transactional paths
    seen = set()
    nb = 0
    for m in muts:
        for fid in P.reach([m], edge_filter=filt):
            f = P.fns[fid]
            for a in E.own_acc(f):
                if a.cell[0] == common.LPG and common.LPG_CELLS.get(a.cell[1]) == "versioned" and a.kind == "LOCK_W":
                    nb += 1
                    for o in a.ops:
                        if o in UNDOABLE_UNTAGGED:
                            key = (short_id(f.id), opshort(o))
                            if key in seen:
                                continue
                            seen.add(key)
                            if key in R1B_EXCEPT:
                                ctx.ob("R1b", "%s#%s" % key, True, what="exception: " + R1B_EXCEPT[key], where=f.loc(a.line))
                                continue
                            ctx.ob("R1b", "%s#%s" % key, False,
                                   what="%s changes a version chain through VersionChain::%s, which carries no transaction id: "
                                        "Session::rollback (remove_versions_by) cannot undo it" % key, where=f.loc(a.line))
    ctx.floor("R1b", nb, 6, "write-lock sites on versioned cells in transactional paths")
    if not seen:
        ctx.ob("R1b", "all-tagged", True, what="all version-chain writes on transactional paths are tx-tagged")

    # ---- R1c rollback removes versions by creator
    disc = P.fn("LpgStore::discard_uncommitted_versions")
    ctx.ob("R1c", "Session::rollback->discard", disc.id in P.reach([rollback]),
           what="Session::rollback does not reach LpgStore::discard_uncommitted_versions", where=rollback.loc())
    tiered = common.versioned_cells(P)["nodes"] != "nodes"
    rvb = P.fn("VersionIndex::remove_versions_by" if tiered else "VersionChain::remove_versions_by")
    ctx.ob("R1c", "discard->remove_versions_by", rvb.id in P.reach([disc]),
           what="discard_uncommitted_versions does not reach VersionChain::remove_versions_by", where=disc.loc())
    # the undo is unconditional per structure: every path through discard_uncommitted_versions takes the write lock of
    # each versioned structure it cleans (a "nothing to do" exit that looks at one structure skips the others: a transaction
    # that only created edges is then not undone)
    vc = common.versioned_cells(P)
    for role in ("nodes", "edges"):
        cellname = vc[role]
        acq = {a.block for a in E.own_acc(disc) if a.cell[1] == cellname and a.kind == "LOCK_W"}
        ctx.floor("R1c", len(acq), 1, "write-lock acquisitions of LpgStore.%s in discard_uncommitted_versions" % cellname)
        # a "nothing to do" exit is fine if it has looked at this structure too (shared lock)
        looked = acq | {a.block for a in E.own_acc(disc) if a.cell[1] == cellname and a.kind == "LOCK_R"}
        ok = must_pass(disc, 0, looked, set(disc.exits()))
        ctx.ob("R1c", "discard#always-cleans-%s" % role, ok,
               what="LpgStore::discard_uncommitted_versions can return without cleaning or even inspecting LpgStore.%s (an exit that "
                    "passes none of its locks): versions created by the rolled-back transaction in that structure stay visible" % cellname, where=disc.loc())
    # the retain predicate keeps a version iff created_by != tx
    found = []
    for g in P.family(rvb):
        gx = FlowCx(P, g)
        for bi, t in g.calls():
            nm = callee_name(t)
            if nm.endswith("::ne") or nm.endswith("::eq"):
                a, b = gx.tags(t["args"][0]), gx.tags(t["args"][1])
                cb = lambda tg: any(x.startswith("cell:") and x.endswith(".created_by") for x in tg) or "call:VersionRef::created_by" in tg \
                    or any(x.startswith("call:") and x.endswith("::created_by") for x in tg)
                if cb(a) != cb(b):
                    other = b if cb(a) else a
                    # the other operand must be the tx parameter of remove_versions_by
                    is_param = any(x.startswith("param:") or x.startswith("upvar:") for x in other)
                    found.append((g, "ne" if nm.endswith("::ne") else "eq", is_param, t["line"], bi))
    ctx.floor("R1c", len(found), 1, "created_by comparison in remove_versions_by")
    for (g, op, is_param, ln, bi) in found:
        # retain(|v| v.created_by != tx): closure returns the comparison result directly
        direct = any(st[0] == [0] for st in []) or g.blocks[bi]["t"]["dst"] == [0]
        ctx.ob("R1c", "remove_versions_by#predicate", op == "ne" and is_param and direct,
               what="VersionChain::remove_versions_by must retain exactly the versions with created_by != tx "
                    "(found `%s`, tx operand is parameter: %s, returned directly: %s)" % (op, is_param, direct), where=g.loc(ln))

    # ---- R2 / R3 Session::commit ordering
    commit = P.fn("Session::commit")
    mc = P.fn("TransactionManager::commit")
    cx = FlowCx(P, commit)
    fam = P.family(commit)
    mcalls = [(g, bi, t) for g in fam for (bi, t) in g.calls() if callee_name(t) == mc.id]
    ctx.floor("R2", len(mcalls), 1, "call of TransactionManager::commit in Session::commit")
    g0, cblk, cterm = mcalls[0]
    store_cells = lambda c: (c[0] == common.RDF and common.RDF_CELLS.get(c[1]) in ("primary", "index")) or \
                            (c[0] == common.LPG and common.LPG_CELLS.get(c[1]) in ("versioned", "data", "index"))
    nchecked = 0
    if g0 is commit:
        ok_blocks = set()
        for bi in range(len(commit.blocks)):
            if commit.blocks[bi]["cl"]:
                continue
            for f in cx.facts_at(bi):
                if f[0] == "variant" and f[1] in ("core::result::Result", "core::ops::control_flow::ControlFlow") \
                        and f[2] in ("Ok", "Continue") and "call:TransactionManager::commit" in f[3]:
                    ok_blocks.add(bi)
        for (bi, t) in commit.calls():
            tg = P.call_targets(t)
            if not tg:
                continue
            W, _ = E.closure_sets(tg)
            W = {c for c in W if store_cells(c)}
            if not W:
                continue
            nchecked += 1
            nm = short_id(callee_name(t))
            undo = {P.fn("LpgStore::discard_uncommitted_versions").id, P.fn("RdfStore::rollback_tx").id}
            # a call is "undo only" when, with the undo routines cut out of the call graph, it writes no store cell
            # (it may be one of them, or a helper wrapping them)
            resid = set()
            for x in tg:
                if x in undo:
                    continue
                for fid in P.reach([x], edge_filter=lambda a_, b_: b_ not in undo):
                    resid |= {c for c in E.writes_own(P.fns[fid]) if store_cells(c)}
            is_undo = not resid
            ok = bi in ok_blocks or (is_undo and bi not in ok_blocks and commit.dominates(cblk, bi))
            ctx.ob("R2", "Session::commit#%s" % nm, ok,
                   what="%s (writes %s) runs in Session::commit without being dominated by the success of "
                        "TransactionManager::commit: a refused commit has already published these writes"
                        % (nm, sorted(c[1] for c in W)[:4]), where=commit.loc(t["line"]))
        # R3: failure exits pass through the discard routines
        disc_callers = P.callers_closure([disc.id])
        rdf_rb = P.fn("RdfStore::rollback_tx")
        rdfrb_callers = P.callers_closure([rdf_rb.id])
        D = {bi for (bi, t) in commit.calls() if any(x in disc_callers for x in P.call_targets(t))}
        R = {bi for (bi, t) in commit.calls() if any(x in rdfrb_callers for x in P.call_targets(t))}
        exits = set(commit.exits())
        succ0 = commit.blocks[cblk]["t"]["t"]
        ok_d = must_pass(commit, succ0, D | ok_blocks, exits)
        ok_r = must_pass(commit, succ0, R | ok_blocks, exits)
        ctx.ob("R3", "Session::commit#lpg-discard", ok_d,
               what="a path from a failed TransactionManager::commit to the return of Session::commit does not pass "
                    "LpgStore::discard_uncommitted_versions: the refused transaction's versions stay in the store",
               where=commit.loc(cterm["line"]))
        ctx.ob("R3", "Session::commit#rdf-discard", ok_r,
               what="a path from a failed TransactionManager::commit to the return of Session::commit does not pass "
                    "RdfStore::rollback_tx: the refused transaction's triple buffer is kept", where=commit.loc(cterm["line"]))
        # R3b: the success arm is complete: every path from an accepted commit to the return applies the RDF buffer
        # (otherwise the transaction's node/edge changes are committed and its triple changes silently dropped) and moves
        # the store clock to the commit epoch
        ctx_tx = P.fn("RdfStore::commit_tx")
        adv = P.fn("LpgStore::advance_epoch_to")
        entries = [b for b in ok_blocks if any(p not in ok_blocks for p in commit.pred()[b])]
        for nm, target in (("rdf-commit_tx", ctx_tx), ("advance_epoch_to", adv)):
            callers = P.callers_closure([target.id])
            T = {bi for (bi, t) in commit.calls() if any(x in callers for x in P.call_targets(t))}
            ok_s = bool(entries) and all(must_pass(commit, b, T, exits) for b in entries)
            ctx.ob("R3b", "Session::commit#success-%s" % nm, ok_s,
                   what="a path from an accepted TransactionManager::commit to the return of Session::commit does not pass %s: "
                        "part of the committed transaction's effects is never applied" % short_id(target.id), where=commit.loc(cterm["line"]))
    else:
        raise common.CheckerError("TransactionManager::commit is called from a closure of Session::commit; R2/R3 need the direct form")
    # R3c: Session::rollback discards in both stores before it marks the transaction aborted, on every path
    ab = P.fn("TransactionManager::abort")
    A = {bi for (bi, t) in rollback.calls() if callee_name(t) == ab.id}
    ctx.floor("R3c", len(A), 1, "call of TransactionManager::abort in Session::rollback")
    for nm, target in (("lpg-discard", disc), ("rdf-rollback_tx", P.fn("RdfStore::rollback_tx"))):
        callers = P.callers_closure([target.id])
        T = {bi for (bi, t) in rollback.calls() if any(x in callers for x in P.call_targets(t))}
        ctx.ob("R3c", "Session::rollback#%s" % nm, bool(T) and must_pass(rollback, 0, T, A),
               what="Session::rollback can reach TransactionManager::abort without passing %s: the rolled-back transaction's changes "
                    "in that store stay" % short_id(target.id), where=rollback.loc())

    # ---- R6 the RDF transaction buffer is applied in issue order
    # commit_tx replays the buffered operations; a later operation on the same triple overrides an earlier one only if
    # the replay preserves the order in which the transaction issued them.
    ctx_fn = P.fn("RdfStore::commit_tx")
    cfx = FlowCx(P, ctx_fn)
    appl = [bi for bi, t in ctx_fn.calls() if callee_name(t) in (P.fn("RdfStore::insert").id, P.fn("RdfStore::remove").id)]
    ctx.floor("R6", len(appl), 2, "apply calls in RdfStore::commit_tx")
    REORDER = ("partition", "sort", "sort_by", "sort_by_key", "sort_unstable", "sort_unstable_by", "rev", "chain", "filter",
               "dedup", "retain", "sorted", "partition_in_place", "skip", "step_by", "zip", "rsplit")
    src_ok, reord, from_buffer = False, set(), False
    for bi, t in ctx_fn.calls():
        if (t["f"] or "").endswith("Iterator::next"):
            # the loop that contains the apply calls
            if any(a in ctx_fn.reachable_blocks(bi) for a in appl):
                tg = cfx.tags(t["args"][0])
                from_buffer = from_buffer or ("cell:RdfStore.tx_buffer" in tg or "cell:TransactionBuffer.buffers" in tg)
                reord |= {x.split("::")[-1] for x in tg if x.startswith("call:") and x.split("::")[-1] in REORDER}
    ctx.ob("R6", "RdfStore::commit_tx#issue-order", from_buffer and not reord,
           what="RdfStore::commit_tx does not apply the transaction's buffered operations in the order they were issued "
                "(buffer reached: %s, reordering combinators: %s): delete-then-insert of one triple commits as a delete, so only part "
                "of the transaction's writes survive" % (from_buffer, sorted(reord)), where=ctx_fn.loc())

    # ---- R6b every operation issued inside a transaction reaches the buffer: insert_in_tx / remove_in_tx push
    # unconditionally (a shortcut that looks at the committed set when the statement runs decides on a state the buffer
    # is not applied to)
    for nm in ("insert_in_tx", "remove_in_tx"):
        bf = P.fn("RdfStore::" + nm)
        bx = FlowCx(P, bf)
        pushes = {bi for bi, t in bf.calls() if callee_name(t).split("::")[-1] in ("push", "push_back", "extend") and
                  any(x in bx.tags(t["args"][0]) for x in ("cell:RdfStore.tx_buffer", "cell:TransactionBuffer.buffers"))}
        ok = bool(pushes) and must_pass(bf, 0, pushes, set(bf.exits()))
        ctx.ob("R6", "RdfStore::%s#always-buffers" % nm, ok,
               what="RdfStore::%s can return without recording the operation in the transaction buffer: part of the "
                    "transaction's writes is missing when the buffer is applied at commit" % nm, where=bf.loc())

    # ---- R7 the session's direct mutators create versions tagged with the session's own transaction
    for n, acc in (("create_node", "create_node_versioned"), ("create_node_with_props", "create_node_with_props_versioned"),
                   ("create_edge", "create_edge_versioned")):
        f = P.fn("Session::" + n)
        fx = FlowCx(P, f)
        ok = False
        for bi, t in f.calls():
            if callee_name(t).endswith("LpgStore::" + acc):
                tg = set()
                for a in t["args"][-2:]:
                    tg |= fx.tags(a)
                ok = "call:Session::get_transaction_context" in tg
        ctx.ob("R7", "Session::%s#tx-tagged" % n, ok,
               what="Session::%s does not create its version through LpgStore::%s with the (epoch, tx id) of "
                    "get_transaction_context: the write is not tagged with the transaction and rollback cannot find it" % (n, acc),
               where=f.loc())

    # ---- R8 MERGE matches only nodes that passed the version-chain check
    # discard_uncommitted_versions removes the version chains of a rolled-back transaction; the single-version side tables
    # (label index, property columns) keep its entries (known finding R1). That stays unobservable only as long as every
    # reader that takes candidates from those tables loads the node through the version chain before it believes it.
    # MergeOperator::find_matching_node takes its candidates from the label index: each `Some(id)` it returns must be
    # dominated by a successful get_node* of that candidate.
    fm = P.fn("MergeOperator::find_matching_node")
    mx = FlowCx(P, fm)
    def _flat(z):
        if isinstance(z, str):
            yield z
        elif isinstance(z, (set, frozenset, list, tuple)):
            for y in z:
                yield from _flat(y)
    nret = 0
    for bi, b in enumerate(fm.blocks):
        if b["cl"]:
            continue
        for pl, rv, ln in b["s"]:
            if pl == [0] and rv[0] == "agg" and rv[1] == "adt" and rv[2].endswith("option::Option") and rv[3] == "Some":
                nret += 1
                live = False
                for x in mx.facts_at(bi):
                    pos = (x[0] == "variant" and x[2] == "Some") or (x[0] == "call" and x[2] is True) or (x[0] == "bool" and x[1] is True)
                    if pos and any(t_.startswith("call:LpgStore::get_node") and not t_.startswith("call:LpgStore::get_node_property") for t_ in _flat(x[1:])):
                        live = True
                ctx.ob("R8", "MergeOperator::find_matching_node#match[%d]" % nret, live,
                       what="MergeOperator::find_matching_node can return a candidate taken from the label index / property columns without "
                            "having loaded it through the version chain (get_node*): the index and column entries of a rolled-back "
                            "transaction survive the rollback, so MERGE matches a node that does not exist and creates nothing",
                       where=fm.loc(ln))
    ctx.floor("R8", nret, 1, "match returns of MergeOperator::find_matching_node")

    # ---- R4 dropped session
    drop = None
    for f in P.fns.values():
        if f.impl_self == "grafeo_engine::session::Session" and f.impl_trait == "core::ops::drop::Drop" and f.id.endswith("::drop"):
            drop = f
    ok = drop is not None and disc.id in P.reach([drop]) and P.fn("RdfStore::rollback_tx").id in P.reach([drop])
    ctx.ob("R4", "Session#Drop", ok,
           what="Session owns an open transaction (current_tx) but %s: a session dropped mid-transaction leaves its writes visible"
                % ("has no Drop impl" if drop is None else "its Drop impl does not reach the rollback routines"),
           where=(drop.loc() if drop else P.adt("session::Session")["file"]))

    # ---- R5 state machine
    state_machine(ctx, P, E, "R5")


def state_machine(ctx, P, E, rule):
    """TxInfo.state only moves Active -> Committed / Aborted (shared with C03: gc() drops Aborted records at once, so a
    Committed transaction that can be flipped to Aborted loses the write set later committers are validated against)"""
    nassign = 0
    for f in P.fns.values():
        for a in E.own_acc(f):
            if a.cell == (common.TXINFO, "state") and a.kind == "W" and a.how == "assign":
                nassign += 1
                fx = FlowCx(P, f)
                facts = fx.facts_at(a.block)
                guarded = any(x[0] == "cmp" and x[1] == "Eq" and
                              (("cell:TxInfo.state" in x[2] and "const:TxState::Active" in x[3]) or
                               ("cell:TxInfo.state" in x[3] and "const:TxState::Active" in x[2])) for x in facts)
                if not guarded and f.vis != "pub":
                    # a private helper: the test may be made by its callers, before each call
                    sites = [(g, bi) for g in P.fns.values() for bi, t in g.calls() if callee_name(t) == f.id]
                    def active_at(g, bi):
                        gx = FlowCx(P, g)
                        return any(x[0] == "cmp" and x[1] == "Eq" and
                                   (("cell:TxInfo.state" in x[2] and "const:TxState::Active" in x[3]) or
                                    ("cell:TxInfo.state" in x[3] and "const:TxState::Active" in x[2])) for x in gx.facts_at(bi))
                    guarded = bool(sites) and all(active_at(g, bi) for g, bi in sites)
                # value assigned
                val = None
                for st in f.blocks[a.block]["s"]:
                    if st[2] == a.line and st[1][0] == "agg" and st[1][2].endswith("TxState"):
                        val = st[1][3]
                ctx.ob(rule, "%s#state=%s" % (short_id(f.id), val), guarded and val != "Active",
                       what="assignment TxInfo.state = %s in %s is not control-dependent on state == Active "
                            "(a finished transaction could change state again)" % (val, short_id(f.id)), where=f.loc(a.line))
    ctx.floor(rule, nassign, 3, "assignments to TxInfo.state")
