"""C16 - values compare, hash, order and serialise consistently (sibling agreement; DESIGN §5 C16)."""
import re
from .facts import short_id, CheckerError
from .flow import FlowCx, callee_name, find_aggregates, return_table
from . import common

EXPLANATION = (
    "(R10) every two-argument Value comparator compares its arms in one orientation (left operand from the first parameter), so it is antisymmetric across type pairs. "
    "Decides sibling-agreement clauses on the MIR of the value wrappers and codecs: (R1) a wrapper whose Hash feeds "
    "the enum discriminant has no Eq arm that can be true across variants; (R2) a wrapper whose Hash uses the bit "
    "pattern of a float does not compare floats with `==` in its own Eq; (R3) Ord and Eq of the orderable wrapper "
    "treat the same variant pairs specially; (R4) the spill codec's variant->tag and tag->variant tables are inverse "
    "bijections over all Value variants and use the same fixed-width integer types per variant; (R5) log records, "
    "snapshots and checkpoint metadata use derived serde and embed Value itself. (R5b) the derived serde bodies write and read every field and variant unconditionally; (R2b) a float wrapper whose Eq compares values is ordered by value, not by bit pattern; (R6) element-wise Eq arms recurse through the wrapper; (R7) the C binding writes each Value variant as a JSON shape from which json_to_value can rebuild it. "
    "(R8) a promoted aggregate state is computed field by field from the old state; (R9) every seen-set of DISTINCT processing is keyed by HashableValue. "
    "The laws over all value triples are not decided.")
ASSUMPTIONS = ["derived impls (automatically_derived) are structural and lossless"]

VAL = "grafeo_common::types::value::Value"


def _variant_of(facts, param):
    vs = [f[2] for f in facts if f[0] == "variant" and param in f[3] and not f[1].startswith("core::")]
    return vs


def run(ctx):
    P = ctx.program()
    comparator_orientation(ctx, P, "R10")
    wrappers = {}
    for nm in ("HashableValue", "OrderableValue", "OrderedFloat64"):
        h = P.method("types::value::" + nm, "Hash", "hash")
        e = P.method("types::value::" + nm, "PartialEq", "eq")
        wrappers[nm] = (h, e)
    # ---- R1
    for nm, (h, e) in wrappers.items():
        feeds = any(callee_name(t) == "core::mem::discriminant" for g in P.family(h) for bi, t in g.calls())
        if not feeds:
            continue
        rows = return_table(P, e)
        cross = []
        for v, facts, bi, ln in rows:
            if v == ("const", "0"):
                continue
            a = _variant_of(facts, "param:1")
            b = _variant_of(facts, "param:2")
            if a and b and a[0] != b[0]:
                cross.append((a[0], b[0], ln))
        if not cross:
            ctx.ob("R1", "%s#no-cross-variant-eq" % nm, True, what="no Eq arm across variants", where=e.loc())
        for (a, b, ln) in cross:
            ctx.ob("R1", "%s#eq(%s,%s)" % (nm, a, b), False,
                   what="%s hashes the variant discriminant but its Eq can be true for (%s, %s): equal values with different hashes "
                        "(a hash-based DISTINCT / GROUP BY / index separates them)" % (nm, a, b), where=e.loc(ln))
    # ---- R2
    n2 = 0
    for nm, (h, e) in wrappers.items():
        bits = any(callee_name(t).endswith("::to_bits") for g in P.family(h) for bi, t in g.calls())
        if not bits:
            continue
        n2 += 1
        floateq = []
        for g in P.family(e):
            for b in g.blocks:
                if b["cl"]:
                    continue
                for st in b["s"]:
                    rv = st[1]
                    if rv[0] == "bin" and rv[1] in ("Eq", "Ne") and rv[4] in ("f64", "f32"):
                        floateq.append(st[2])
        # a Hash that normalises the classes Eq merges (all NaNs; +0.0 / -0.0) before taking the bits agrees with `==`
        norm_nan = any(callee_name(t).endswith("::is_nan") for g in P.family(h) for bi, t in g.calls())
        norm_zero = False
        for g in P.family(h):
            gx = FlowCx(P, g)
            for b in g.blocks:
                if b["cl"]:
                    continue
                for st in b["s"]:
                    rv = st[1]
                    if rv[0] == "bin" and rv[1] in ("Eq", "Ne") and rv[4] in ("f64", "f32"):
                        tg = gx.tags(rv[2]) | gx.tags(rv[3])
                        if any(x in tg for x in ("const:0", "const:0f64", "const:0.0", "const:0f32", "const:0_f64", "const:+0.0f64", "const:0.0f64")):
                            norm_zero = True
        normalised = norm_nan and norm_zero
        ctx.ob("R2", "%s#float-eq-vs-bits-hash" % nm, (not floateq) or normalised,
               what="%s hashes the bit pattern of its float but its Eq compares floats with `==`: 0.0 == -0.0 (and all NaNs are equal) "
                    "while their hashes differ" % nm, where=e.loc(floateq[0] if floateq else None))
    ctx.floor("R2", n2, 2, "wrappers hashing float bits")
    # ---- R2b order vs equality of a float wrapper: an Eq that compares the float values (`==`: 0.0 and -0.0 are one
    # key, and with an is_nan test all NaNs are one key) needs an Ord that compares values too; an order over the bit
    # pattern (total_cmp, to_bits) separates keys that Eq and Hash merge - and the other way round.
    n2b = 0
    for nm, (h, e) in wrappers.items():
        c = P.method("types::value::" + nm, "Ord", "cmp", required=False)
        if c is None:
            continue
        def floatops(fn, ops):
            return [st[2] for g in P.family(fn) for b in g.blocks if not b["cl"] for st in b["s"]
                    if st[1][0] == "bin" and st[1][1] in ops and st[1][4] in ("f64", "f32")]
        def calls(fn, names):
            return [callee_name(t) for g in P.family(fn) for bi, t in g.calls() if callee_name(t).split("::")[-1] in names]
        eq_value = bool(floatops(e, ("Eq", "Ne")))
        eq_bits = bool(calls(e, ("to_bits",)))
        if not (eq_value or eq_bits):
            continue      # no float compared directly in this wrapper's Eq (it delegates to another wrapper)
        n2b += 1
        cmp_bits = bool(calls(c, ("total_cmp", "to_bits")))
        cmp_value = bool(calls(c, ("partial_cmp",))) or bool(floatops(c, ("Lt", "Le", "Gt", "Ge", "Eq", "Ne")))
        eq_nan = bool(calls(e, ("is_nan",)))
        cmp_nan = bool(calls(c, ("is_nan",)))
        ok = not (eq_value and cmp_bits) and not (eq_bits and not eq_value and cmp_value and not cmp_bits) and (not eq_nan or cmp_nan or (eq_bits and cmp_bits))
        ctx.ob("R2b", "%s#ord-vs-eq" % nm, ok,
               what="%s: Eq compares %s%s but Ord::cmp orders by %s%s: values that are equal (0.0 / -0.0, NaNs) are ordered apart, or "
                    "ordered-equal values are unequal; an ordered index or a sort separates equal keys"
                    % (nm, "float values" if eq_value else "bit patterns", " (NaN == NaN)" if eq_nan else "",
                       "bit pattern" if cmp_bits else "value", "" if cmp_nan else ", without a NaN case"), where=c.loc())
    ctx.floor("R2b", n2b, 1, "float wrappers with both Eq and Ord")
    # ---- R3 Ord vs Eq special pairs (orderable)
    oc = P.method("types::value::OrderableValue", "Ord", "cmp")
    oe = wrappers["OrderableValue"][1]
    def pairs(fn):
        out = set()
        fx = FlowCx(P, fn)
        for bi in range(len(fn.blocks)):
            if fn.blocks[bi]["cl"]:
                continue
            t = fn.blocks[bi]["t"]
            has_work = t["k"] == "call" or any(st[1][0] in ("bin", "cast") for st in fn.blocks[bi]["s"])
            if not has_work:
                continue
            facts = fx.facts_at(bi)
            a = _variant_of(facts, "param:1")
            b = _variant_of(facts, "param:2")
            if a and b:
                out.add((a[0], b[0]))
        return out
    pc, pe = pairs(oc), pairs(oe)
    ctx.ob("R3", "OrderableValue#cmp-vs-eq-pairs", pc == pe,
           what="OrderableValue::cmp and ::eq treat different variant pairs specially (cmp-only %s, eq-only %s): cmp == Equal and == can disagree"
                % (sorted(pc - pe), sorted(pe - pc)), where=oc.loc())

    # ---- R6 HashableValue: every payload variant is hashed, and the variants hashed by bit pattern or element-wise are
    # compared the same way by Eq (a variant that falls back to Value's derived == while its hash uses bits / wrappers
    # breaks `equal => equal hash` for NaN / -0.0 payloads)
    hh, he = wrappers["HashableValue"]
    hx = FlowCx(P, hh)
    arms = {}
    for g in P.family(hh):
        gx = hx if g is hh else FlowCx(P, g)
        for bi, t in g.calls():
            vs = [f[2] for f in (hx.facts_at(bi) if g is hh else []) if f[0] == "variant" and f[1] == VAL]
            if vs:
                arms.setdefault(vs[0], set()).add(callee_name(t).split("::")[-1])
    payload = [v["name"] for v in P.adts[VAL]["variants"] if v["fields"]]
    for v in payload:
        ctx.ob("R6", "HashableValue::hash#%s" % v, v in arms,
               what="HashableValue::hash has no arm that hashes the payload of Value::%s: all values of that type collide or are not "
                    "hashed consistently with Eq" % v, where=hh.loc())
    eq_rows = {}
    for vdesc, facts, bi, ln in return_table(P, he):
        a = _variant_of(facts, "param:1")
        b = _variant_of(facts, "param:2")
        if a and b and a[0] == b[0]:
            eq_rows.setdefault(a[0], []).append(vdesc)
    he_calls = {callee_name(t).split("::")[-1] for g in P.family(he) for bi, t in g.calls()}
    hx_e = FlowCx(P, he)
    for v, calls in sorted(arms.items()):
        bitwise = "to_bits" in calls
        elementwise = v in ("List", "Map")
        if not (bitwise or elementwise):
            continue
        ok = v in eq_rows
        if ok and elementwise:
            # the element comparison of this arm goes through the wrapper again (not through Value's derived ==)
            rec = False
            for bi, b in enumerate(he.blocks):
                if b["cl"]:
                    continue
                for st in b["s"]:
                    rv = st[1]
                    if rv[0] == "agg" and rv[1] == "closure" and rv[2] in P.fns:
                        fa = hx_e.facts_at(bi)
                        a_ = _variant_of(fa, "param:1")
                        b_ = _variant_of(fa, "param:2")
                        if a_ and b_ and a_[0] == v and b_[0] == v:
                            nested = [P.fns[rv[2]]] + [x for x in P.fns.values() if x.id.startswith(rv[2] + "::{closure")]
                            for g in nested:
                                if any(callee_name(t) == he.id for _, t in g.calls()):
                                    rec = True
            ok = rec
        if ok and v == "Float64":
            ok = any(r[0] == "cmp" and any(x.endswith("to_bits") for x in r[2]) and any(x.endswith("to_bits") for x in r[3]) for r in eq_rows[v])
        if ok and v == "Vector":
            ok = "to_bits" in he_calls
        ctx.ob("R6", "HashableValue::eq#%s" % v, ok,
               what="HashableValue hashes Value::%s %s but its Eq has no matching arm that compares the same way: equal-by-Eq values "
                    "can hash differently (or the reverse)" % (v, "by bit pattern" if bitwise else "element-wise through the wrapper (its Eq must recurse through the wrapper too)"),
               where=he.loc())

    # ---- R4 spill codec
    ser = P.fn("spill::serializer::serialize_value")
    de = P.fn("spill::serializer::deserialize_value")
    variants = [v["name"] for v in P.adts[VAL]["variants"]]
    sx = FlowCx(P, ser)
    ser_tag, ser_ty = {}, {}
    for bi, t in ser.calls():
        c = callee_name(t)
        facts = None
        if c.split("::")[-1] == "write_all" and len(t["args"]) > 1:
            facts = sx.facts_at(bi)
            vs = [f[2] for f in facts if f[0] == "variant" and f[1] == VAL]
            if not vs:
                continue
            # first element of an array literal
            for r in sx.tr.origin(t["args"][1]):
                pass
            tg = sx.tags(t["args"][1])
            consts = [x for x in tg if re.match(r"^const:\d+$", x)]
            arr = _array_first_const(ser, t["args"][1])
            if arr is not None:
                ser_tag.setdefault(vs[0], set()).add(arr)
        m = re.match(r"^core::num::<impl (\w+)>::to_le_bytes$", t["f"] or "")
        if m:
            facts = sx.facts_at(bi)
            vs = [f[2] for f in facts if f[0] == "variant" and f[1] == VAL]
            if vs:
                ser_ty.setdefault(vs[0], set()).add(m.group(1))
    dx = FlowCx(P, de)
    de_tag, de_ty = {}, {}
    for (bi, si, rv, ln) in find_aggregates(de, "value::Value"):
        for f in dx.facts_at(bi):
            if f[0] == "switch" and f[1] != ["otherwise"]:
                for v in f[1]:
                    de_tag.setdefault(v, set()).add(rv[3])
    for bi, t in de.calls():
        m = re.match(r"^core::num::<impl (\w+)>::from_le_bytes$", t["f"] or "")
        if m:
            for f in dx.facts_at(bi):
                if f[0] == "switch" and f[1] != ["otherwise"]:
                    for v in f[1]:
                        de_ty.setdefault(v, set()).add(m.group(1))
    ctx.floor("R4", len(ser_tag), 8, "variant->tag arms in serialize_value")
    ctx.floor("R4", len(de_tag), 8, "tag->variant arms in deserialize_value")
    for v in variants:
        tags = ser_tag.get(v, set())
        ok = len(tags) == 1
        back = de_tag.get(next(iter(tags)), set()) if ok else set()
        # nested values (List/Map contain recursive calls) construct only their own variant in their arm
        ctx.ob("R4", "spill#%s" % v, ok and v in back and all(ser_tag.get(o) != tags for o in variants if o != v),
               what="spill codec: Value::%s is written with tag %s, and that tag reads back as %s: spilled rows change value or type"
                    % (v, sorted(tags), sorted(back)), where=ser.loc())
        if ok:
            t0 = next(iter(tags))
            a, b = ser_ty.get(v, set()), de_ty.get(t0, set())
            ctx.ob("R4", "spill#%s-widths" % v, a == b,
                   what="spill codec: Value::%s writes integers of type %s but reads %s" % (v, sorted(a), sorted(b)), where=ser.loc())

    # ---- R5 derived serde
    need = {"grafeo_adapters::storage::wal::record::WalRecord": True, "grafeo_engine::database::SnapshotNode": True,
            "grafeo_engine::database::SnapshotEdge": True, "grafeo_engine::database::Snapshot": False,
            "grafeo_adapters::storage::wal::log::CheckpointMetadata": False, VAL: False}
    for ty, embeds in need.items():
        if ty not in P.adts:
            raise CheckerError("C16-R5: type %s not found" % ty)
        for tr in ("Serialize", "Deserialize"):
            ims = [im for im in P.impls if im["self"] == ty and im["trait"] and im["trait"].split("::")[-1] == tr]
            ok = len(ims) == 1 and ims[0]["derived"]
            ctx.ob("R5", "%s#derived-%s" % (ty.split("::")[-1], tr), ok,
                   what="%s does not use a derived %s impl (a hand-written one can be lossy)" % (ty.split("::")[-1], tr), where=P.adts[ty]["file"])
        if embeds:
            ftys = [f[1] for v in P.adts[ty]["variants"] for f in v["fields"]]
            ctx.ob("R5", "%s#embeds-Value" % ty.split("::")[-1], any(VAL in x for x in ftys),
                   what="%s does not carry property values as Value itself" % ty.split("::")[-1], where=P.adts[ty]["file"])
    serde_complete(ctx, P, "R5b", list(need) + ["grafeo_engine::database::SnapshotEdge"])

    # ---- R8 a state that is promoted keeps what it has accumulated: when AggregateState::update replaces the state by
    # another variant (integer sum -> float sum on the first float), every field of the new state is computed from the
    # field at the same position of the old one. A DISTINCT sum that starts its seen-set afresh at the promotion counts
    # values again that it has already added: DISTINCT separates equal values, and the result depends on the row order.
    up = P.fn("AggregateState::update")
    ux = FlowCx(P, up)
    AS = P.adt("operators::aggregate::AggregateState")
    n8 = 0
    for v in [x["name"] for x in AS["variants"]]:
        for (bi, si, rv, ln) in find_aggregates(up, "AggregateState", v):
            olds = [x[2] for x in ux.facts_at(bi) if x[0] == "variant" and x[1].endswith("AggregateState")]
            if not olds or olds[0] == v:
                continue
            old = olds[0]
            n8 += 1
            missing = []
            for i, o in enumerate(rv[4]):
                if ("cell:%s.%d" % (old, i)) not in ux.tags(o):
                    missing.append(i)
            ctx.ob("R8", "AggregateState::update#%s->%s" % (old, v), not missing,
                   what="AggregateState::update promotes %s to %s without carrying over field(s) %s of the old state: what was "
                        "accumulated (sum so far / the set of values already seen) is lost, and later duplicates are counted again"
                        % (old, v, missing), where=up.loc(ln))
    ctx.floor("R8", n8, 4, "state promotions in AggregateState::update")

    # ---- R9 duplicate detection keys on the values: every set that DISTINCT processing uses to remember what it has seen
    # (operator fields, the parallel merge, the DISTINCT aggregate states) is keyed by HashableValue - directly or
    # through a key struct made of them. A key made of hashes, or of a smaller encoding of the value, merges different
    # values (float bits with an integer, NULL with false, any two lists).
    def key_ok(ty, depth=0):
        if "HashableValue" in ty:
            return True
        if depth > 2:
            return False
        m = re.search(r"HashSet<([^,>]+(?:<[^>]*>)?)", ty)
        inner = m.group(1).strip() if m else ty
        a = P.adts.get(inner) or next((x for i, x in P.adts.items() if i.endswith("::" + inner.split("::")[-1]) and inner.split("::")[-1] in ("RowKey",) and i.startswith(inner.rsplit("::", 1)[0])), None)
        if a:
            return all(key_ok(ff[1], depth + 1) for v in a["variants"] for ff in v["fields"]) and bool(a["variants"])
        return False
    n9 = 0
    for aid, a in sorted(P.adts.items()):
        if not aid.startswith("grafeo_core::execution::") or "Distinct" not in aid.split("::")[-1]:
            continue
        for v in a["variants"]:
            for ff in v["fields"]:
                if "HashSet<" in ff[1]:
                    n9 += 1
                    ctx.ob("R9", "%s.%s#keyed-by-value" % (aid.split("::")[-1], ff[0]), key_ok(ff[1]),
                           what="%s.%s remembers seen rows as %s, which is not made of HashableValue: different values that share "
                                "the encoding / hash are treated as duplicates" % (aid.split("::")[-1], ff[0], ff[1]), where=a["file"])
    for f in sorted(P.fns.values(), key=lambda f: f.id):
        if f.id.startswith("grafeo_core::execution::") and "distinct" in f.id.split("::")[-1].lower() and "::tests::" not in f.id and f.kind != "closure":
            for l in range(len(f.locals)):
                ty = f.local_ty(l)
                if ty.startswith(("std::collections::HashSet<", "hashbrown::HashSet<", "std::collections::hash::set::HashSet<")):
                    n9 += 1
                    ctx.ob("R9", "%s#local-set-keyed-by-value" % short_id(f.id), key_ok(ty),
                           what="%s deduplicates with a %s: rows whose hashes / encodings coincide are dropped as duplicates" % (short_id(f.id), ty),
                           where=f.loc())
                    break
    ctx.floor("R9", n9, 4, "seen-sets of DISTINCT processing")

    # ---- R7 JSON for the C binding: value_to_json writes each Value variant as a JSON shape from which json_to_value can
    # build that variant again (the reader's table, per JSON shape, contains the variant the writer used that shape for)
    JS = ["Null", "Bool", "Number", "String", "Array", "Object"]
    vj, jv = P.fn("grafeo_c::types::value_to_json"), P.fn("grafeo_c::types::json_to_value")
    wx, rx = FlowCx(P, vj), FlowCx(P, jv)
    wrote = {}
    for bi, b in enumerate(vj.blocks):
        if b["cl"]:
            continue
        vs = [x[2] for x in wx.facts_at(bi) if x[0] == "variant" and x[1] == VAL]
        if len(vs) != 1:
            continue
        for st in b["s"]:
            if st[0] == [0] and st[1][0] == "agg" and st[1][2] == "serde_json::value::Value":
                wrote.setdefault(vs[0], set()).add(st[1][3])
        t = b["t"]
        if t["k"] == "call" and t["dst"] == [0]:
            wrote.setdefault(vs[0], set()).add("Number")      # json!(number): to_value(..).unwrap()
    back = {}
    for bi, b in enumerate(jv.blocks):
        if b["cl"]:
            continue
        js = [x[2] for x in rx.facts_at(bi) if x[0] == "variant" and x[1] == "serde_json::value::Value"]
        if len(js) != 1:
            continue
        shape = JS[int(js[0])] if str(js[0]).isdigit() and int(js[0]) < len(JS) else str(js[0])
        for st in b["s"]:
            if st[0] == [0] and st[1][0] == "agg" and st[1][2] == VAL:
                back.setdefault(shape, set()).add(st[1][3])
    variants = [v["name"] for v in P.adts[VAL]["variants"]]
    ctx.floor("R7", len(wrote), len(variants), "Value variants with a JSON shape in value_to_json")
    ctx.floor("R7", len(back), 5, "JSON shapes handled by json_to_value")
    for v in variants:
        shapes = wrote.get(v, set())
        ok = len(shapes) == 1 and v in back.get(next(iter(shapes)), set())
        ctx.ob("R7", "json#%s" % v, ok,
               what="C binding: Value::%s is written as JSON %s, which json_to_value reads back as %s: the value changes type on "
                    "the way through JSON" % (v, sorted(shapes), sorted(set().union(*[back.get(s_, set()) for s_ in shapes])) if shapes else []),
               where=vj.loc())


def _array_first_const(fn, op):
    """if op is (a reference to) an array literal whose first element is an integer constant, return it"""
    seen = set()
    st = [op]
    while st:
        o = st.pop()
        if o[0] not in ("c", "m"):
            if o[0] == "k" and str(o[1]).startswith("promoted:"):
                i = int(str(o[1]).split(":")[1])
                if i < len(fn.promoted):
                    for s in fn.promoted[i]:
                        rv = s[1]
                        if rv[0] == "agg" and rv[1] == "array" and rv[4] and rv[4][0][0] == "k":
                            return str(rv[4][0][1])
            continue
        l = o[1][0]
        if l in seen:
            continue
        seen.add(l)
        for (bi, si, dpl, rv, ln) in fn.defs().get(l, []):
            if rv[0] == "agg" and rv[1] == "array" and rv[4] and rv[4][0][0] == "k":
                return str(rv[4][0][1])
            if rv[0] == "use":
                st.append(rv[1])
            elif rv[0] in ("ref", "raw"):
                st.append(["c", rv[2]])
            elif rv[0] == "cast":
                st.append(rv[2])
    return None



def serde_complete(ctx, P, rule, types):
    """the derived Serialize / Deserialize bodies of the persisted records write and read every field and every variant
    unconditionally: one serialize_field per named field and no skip_field (serde(skip), skip_serializing_if), one
    serialize_*_variant per variant (serde(untagged), serde(skip) on a variant), one next_element per field in the
    sequence visitor the binary formats use (serde(skip_deserializing), serde(default))"""
    from collections import Counter
    for ty in dict.fromkeys(types):
        adt = P.adts.get(ty)
        if adt is None:
            raise CheckerError("C16-%s: type %s not found" % (rule, ty))
        short = ty.split("::")[-1]
        variants = adt["variants"]
        is_enum = adt.get("kind") == "enum" or len(variants) > 1
        ser = [f for f in P.fns.values() if f.impl_self == ty and f.impl_trait and f.impl_trait.endswith("::Serialize") and f.kind != "closure"]
        if len(ser) != 1:
            raise CheckerError("C16-%s: expected one Serialize::serialize body for %s, found %d" % (rule, ty, len(ser)))
        c = Counter(callee_name(t).split("::")[-1] for bi, t in ser[0].calls())
        nfields = sum(len(v["fields"]) for v in variants)
        if is_enum:
            unit = sum(1 for v in variants if not v["fields"])
            newt = sum(1 for v in variants if len(v["fields"]) == 1 and v["fields"][0][0].isdigit())
            tup = sum(1 for v in variants if len(v["fields"]) > 1 and v["fields"][0][0].isdigit())
            stru = len(variants) - unit - newt - tup
            got = (c["serialize_unit_variant"], c["serialize_newtype_variant"], c["serialize_tuple_variant"], c["serialize_struct_variant"])
            ok = got == (unit, newt, tup, stru) and c["skip_field"] == 0 and \
                c["serialize_field"] == sum(len(v["fields"]) for v in variants if len(v["fields"]) > 1 or (v["fields"] and not v["fields"][0][0].isdigit()))
            what = "variants written (unit, newtype, tuple, struct) = %s, declared %s; serialize_field calls %d, skip_field calls %d" % (
                got, (unit, newt, tup, stru), c["serialize_field"], c["skip_field"])
        else:
            ok = c["serialize_field"] == nfields and c["skip_field"] == 0
            what = "%d serialize_field calls for %d fields, %d skip_field calls" % (c["serialize_field"], nfields, c["skip_field"])
        ctx.ob(rule, "%s#serialize-complete" % short, ok,
               what="the Serialize impl of %s does not write every field / variant unconditionally (%s): what is read back "
                    "differs from what was stored, or cannot be decoded by the positional binary format" % (short, what), where=ser[0].loc())
        vis = [f for f in P.fns.values() if ("_[%s]::" % short) in f.id and f.id.split("::")[-1].split("#")[0] in ("visit_seq", "visit_enum")
               and "::visit_enum::" not in f.id]
        if not vis:
            raise CheckerError("C16-%s: no derived Deserialize visitor found for %s" % (rule, ty))
        for f in vis:
            c = Counter(callee_name(t).split("::")[-1] for bi, t in f.calls())
            if f.id.split("::")[-1].startswith("visit_seq"):
                ok = c["next_element"] == nfields
                what = "%d next_element calls for %d fields" % (c["next_element"], nfields)
            else:
                unit = sum(1 for v in variants if not v["fields"])
                newt = sum(1 for v in variants if len(v["fields"]) == 1 and v["fields"][0][0].isdigit())
                rest = len(variants) - unit - newt
                got = (c["unit_variant"], c["newtype_variant"], c["struct_variant"] + c["tuple_variant"])
                ok = got == (unit, newt, rest)
                what = "variants read (unit, newtype, struct/tuple) = %s, declared %s" % (got, (unit, newt, rest))
            ctx.ob(rule, "%s#deserialize-complete[%s]" % (short, f.id.split("::")[-1].split("#")[0]), ok,
                   what="the Deserialize impl of %s does not read every field / variant (%s)" % (short, what), where=f.loc())


def comparator_orientation(ctx, P, rule):
    """A two-argument value comparator `fn(a, b) -> Ordering` must be antisymmetric: cmp(a, b) is the reverse of
    cmp(b, a). It compares per type pair in separate match arms; if one arm compares (b, a) while the others compare
    (a, b), mixed pairs - Float64 against Int64, say - get the same answer in both directions and the sort order is not
    an order any more. Every comparison call of such a function takes its left operand from the first parameter and its
    right operand from the second (or all of them the other way round)."""
    from .flow import FlowCx, callee_name
    n = 0
    for f in sorted(P.fns.values(), key=lambda f: f.id):
        if f.kind == "closure" or f.argc != 2 or "::tests::" in f.id or not f.id.startswith(("grafeo_core::", "grafeo_common::", "grafeo_engine::", "<grafeo_")):
            continue
        t1, t2, rt = f.local_ty(1), f.local_ty(2), f.local_ty(0)
        if "types::value::Value" not in t1 or t1 != t2 or "cmp::Ordering" not in rt:
            continue
        fx = FlowCx(P, f)
        orient = {}
        for bi, t in f.calls():
            nm = (t.get("f") or callee_name(t)).split("::")[-1]
            if nm not in ("cmp", "partial_cmp", "total_cmp") and not nm.startswith("compare"):
                continue
            if len(t["args"]) != 2:
                continue
            a, b = fx.tags(t["args"][0]), fx.tags(t["args"][1])
            l1, l2 = "param:1" in a, "param:2" in a
            r1, r2 = "param:1" in b, "param:2" in b
            if l1 and r2 and not l2 and not r1:
                orient.setdefault("ab", []).append(t["line"])
            elif l2 and r1 and not l1 and not r2:
                # cmp(b, a) whose result is reversed is cmp(a, b): a later Ordering::reverse (also under Option::map) that is fed
                # by this very call puts the arm back into the common orientation
                tagname = "call:" + "::".join(callee_name(t).split("::")[-2:])
                rev = False
                for b2, t2 in f.calls():
                    n2 = (t2.get("f") or callee_name(t2)).split("::")[-1]
                    if b2 != bi and f.dominates(bi, b2) and (n2 == "reverse" or (n2 == "map" and any(a_[0] == "fn" and str(a_[1]).endswith("Ordering::reverse") for a_ in t2["args"]))):
                        if any(x.endswith(nm) and x.startswith("call:") for x in fx.tags(t2["args"][0])):
                            rev = True
                orient.setdefault("ab" if rev else "ba", []).append(t["line"])
        if sum(len(v) for v in orient.values()) < 2:
            continue
        n += 1
        minority = min(orient.values(), key=len) if len(orient) > 1 else []
        ctx.ob(rule, "%s#one-orientation" % short_id(f.id), len(orient) == 1,
               what="%s compares (a, b) in some arms and (b, a) in others: for the type pairs of the reversed arm cmp(a, b) and cmp(b, a) "
                    "agree instead of being opposite, so sorting a column that mixes those types depends on arrival order"
                    % short_id(f.id), where=f.loc(minority[0] if minority else None))
    ctx.floor(rule, n, 2, "two-argument value comparators with several comparison arms")
