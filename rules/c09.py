"""C09 - the optimizer never changes a query's answer (side-conditions only; DESIGN §5 C09)."""
from .facts import short_id, CheckerError
from .flow import FlowCx, callee_name, find_aggregates
from . import common

EXPLANATION = (
    "Decides the side-conditions under which the optimizer's rewrites commute with operators, on the MIR of "
    "Optimizer::try_push_filter_into and the translators: (R1) a filter is only pushed (recursive call) through "
    "operator kinds it commutes with - Project, Return, Expand, Join, Sort, Distinct - never through Limit, Skip, "
    "Aggregate, Union, Unwind or anything else; (R2) each such step is control-dependent on its variable-scope test "
    "(predicate variables disjoint from computed aliases; no variable introduced by the expand; for a join, used by the "
    "side it is pushed into and not by the other side); (R3) filters are pushed into join sides only while every join "
    "the front ends build is Inner or Cross (otherwise the optimizer must test the join type); (R5) the variable collectors "
    "behind those scope tests visit every sub-expression field of every expression kind; (R4, informational) the "
    "join-reorder collector keeps filter wrappers of its relations. R5 also: the visit of a child does not hinge on a sibling field. "
    "(R7) the collector of the join conditions between two relation sets walks the whole edge list of the join graph (no short-circuit search, no early loop exit), so a reordered join keeps the predicates of every crossing edge. (R6) the operator-level collector behind the join-side test visits every child operator of every operator kind (scope-resetting operators excepted with reasons). "
    "Semantic equivalence of plans is not decided.")
ASSUMPTIONS = ["variant names of LogicalOperator / JoinType identify operator kinds"]

COMMUTES = {"Project", "Return", "Expand", "Join", "Sort", "Distinct"}


def run(ctx):
    P = ctx.program()
    f = P.fn("Optimizer::try_push_filter_into")
    fx = FlowCx(P, f)
    rec = [(bi, t) for bi, t in f.calls() if callee_name(t) == f.id]
    ctx.floor("R1", len(rec), 4, "recursive push-down steps in try_push_filter_into")
    seen = {}
    for bi, t in rec:
        facts = fx.facts_at(bi)
        vs = [x[2] for x in facts if x[0] == "variant" and x[1].endswith("LogicalOperator")]
        v = vs[0] if vs else "?"
        k = seen[v] = seen.get(v, 0) + 1
        inst = "%s[%d]" % (v, k)
        ctx.ob("R1", "push-through:%s" % inst, v in COMMUTES,
               what="the filter push-down recurses through LogicalOperator::%s: a filter does not commute with it (row-count / "
                    "null-extending / grouping operator), so the optimized query returns different rows" % v, where=f.loc(t["line"]))
        calls = [x for x in facts if x[0] == "call"]
        if v == "Project":
            ok = any(x[1].endswith("is_disjoint") and x[2] is True and
                     any("call:Optimizer::extract_variables" in a for a in x[3]) and
                     any("call:Optimizer::extract_projection_aliases" in a for a in x[3]) for x in calls)
            ctx.ob("R2", "guard:%s" % inst, ok,
                   what="push through Project is not guarded by `predicate variables disjoint from the projection's computed aliases`", where=f.loc(t["line"]))
        elif v == "Expand":
            ok = any(x[1].endswith("Iterator::any") and x[2] is False and
                     any("call:Optimizer::extract_variables" in a for a in x[3]) and
                     any(any(y.startswith("upvar:") or y.startswith("cell:ExpandOp.") for y in a) for a in x[3]) for x in calls)
            ctx.ob("R2", "guard:%s" % inst, ok,
                   what="push through Expand is not guarded by `the predicate uses no variable introduced by the expand`", where=f.loc(t["line"]))
        elif v == "Join":
            side = [c.split(".")[-1] for c in fx.tags(t["args"][2]) if c.startswith("cell:JoinOp.") and c.split(".")[-1] in ("left", "right")]
            if len(set(side)) != 1:
                ctx.ob("R2", "guard:%s" % inst, False, what="cannot tell which join side the filter is pushed into", where=f.loc(t["line"]))
                continue
            s = side[0]
            o = "right" if s == "left" else "left"
            uses_s = any(x[1].endswith("Iterator::any") and x[2] is True and any(("cell:JoinOp." + s) in a for a in x[3]) for x in calls)
            not_o = any(x[1].endswith("Iterator::any") and x[2] is False and any(("cell:JoinOp." + o) in a for a in x[3]) for x in calls)
            ctx.ob("R2", "guard:%s" % inst, uses_s and not_o,
                   what="push into the %s side of a Join is not guarded by `uses variables of the %s side and none of the %s side`" % (s, s, o),
                   where=f.loc(t["line"]))
    # ---- R3 join kinds
    jt = {}
    for g in P.fns.values():
        if g.krate != "grafeo_engine" or "::query::" not in g.id or "optimizer" in g.id:
            continue
        for (bi, si, rv, ln) in find_aggregates(g, "plan::JoinType"):
            jt.setdefault(rv[3], []).append(g.loc(ln))
    ctx.floor("R3", sum(len(v) for v in jt.values()), 3, "JoinType constructions in translators/planner")
    tests_type = False
    for x in fx.facts_at(0):
        pass
    for bi, b in enumerate(f.blocks):
        if b["cl"]:
            continue
        for st in b["s"]:
            rv = st[1]
            if rv[0] == "discr" and rv[2].endswith("JoinType"):
                tests_type = True
        for bi2, t2 in f.calls():
            tg = set()
            if (t2["f"] or "").endswith("::eq") or (t2["f"] or "").endswith("::ne"):
                for a in t2["args"]:
                    tg |= fx.tags(a)
                if "cell:JoinOp.join_type" in tg:
                    tests_type = True
    outer = sorted(k for k in jt if k not in ("Inner", "Cross"))
    ctx.ob("R3", "join-kinds", (not outer) or tests_type,
           what="the front ends build %s joins (%s) but the filter push-down pushes into both join sides without testing the join "
                "type: a predicate pushed below an outer join changes which rows are null-extended" % (outer, [jt[k][0] for k in outer]),
           where=f.loc())
    # ---- R5 the variable collectors behind the scope tests visit every sub-expression
    # The guards of R2 compare variable sets computed by recursive collectors. A collector that skips one child of one
    # expression kind under-approximates the set, the scope test passes wrongly, and a filter is pushed below the
    # operator that binds one of its variables.
    le = P.adt("plan::LogicalExpression")
    for cname in ("Optimizer::collect_variables", "Optimizer::collect_from_expression"):
        cf = P.fn(cname)
        cx = FlowCx(P, cf)
        per = {}
        sibling = []
        for bi, t in cf.calls():
            if callee_name(t) == cf.id:
                facts = cx.facts_at(bi)
                vs = [x[2] for x in facts if x[0] == "variant" and x[1].endswith("LogicalExpression")]
                for v_ in vs:
                    per[v_] = per.get(v_, 0) + 1
                # the visit of a child must not hinge on a *sibling* field of the same expression (`if operand.is_none()
                # { visit(when) }`): the child is then skipped for some shapes of the expression
                argf = {x for x in cx.tags(t["args"][0]) if x.startswith("cell:") and any(x.startswith("cell:%s." % v_) for v_ in vs)}
                for x in facts:
                    if x[0] == "variant" and x[1].endswith("LogicalExpression"):
                        continue
                    sets = [a for a in x[2:4] if isinstance(a, (set, frozenset))] + \
                           [a for a in (x[3] if x[0] == "call" and isinstance(x[3], list) else []) if isinstance(a, (set, frozenset))]
                    if any(y.startswith("call:") and y.endswith("::next") for a in sets for y in a):
                        continue      # the exit edge of a loop over a sibling list, not a condition
                    ff = {y for a in sets for y in a if y.startswith("cell:") and any(y.startswith("cell:%s." % v_) for v_ in vs)}
                    if argf and ff and not (ff & argf):
                        sibling.append((vs[0] if vs else "?", sorted(ff)[0], sorted(argf)[0], t["line"]))
        for (v_, cond_f, arg_f, ln_) in sibling:
            ctx.ob("R5", "%s#%s-unconditional" % (cname.split("::")[-1], v_), False,
                   what="%s visits %s of LogicalExpression::%s only under a condition on its sibling %s: for the other shapes of the "
                        "expression the variables used there are missing from the scope tests" % (cname, arg_f[5:], v_, cond_f[5:]),
                   where=cf.loc(ln_))
        nv = 0
        for v in le["variants"]:
            need = sum(1 for fl in v["fields"] if "LogicalExpression" in fl[1])
            if need == 0:
                continue
            nv += 1
            got = per.get(v["name"], 0)
            ctx.ob("R5", "%s#%s" % (cname.split("::")[-1], v["name"]), got >= need,
                   what="%s visits %d of the %d sub-expression fields of LogicalExpression::%s: variables used there are missing from "
                        "the set the push-down scope tests rely on" % (cname, got, need, v["name"]), where=cf.loc())
        ctx.floor("R5", nv, 8, "expression kinds with sub-expressions")

    # ---- R6 the operator-level collector behind the join-side tests visits every child operator: the push-down into a join
    # asks "does the predicate use a variable of the left / right input" against collect_output_variables. A child that is
    # not visited makes the set too small, `uses_left` comes out false, and the predicate is pushed into the other input,
    # where that variable is unbound (NULL): the optimized plan returns no rows.
    lo = P.adt("plan::LogicalOperator")
    oc = P.fn("Optimizer::collect_output_variables_recursive")
    ox = FlowCx(P, oc)
    per = {}
    for bi, t in oc.calls():
        if callee_name(t) == oc.id:
            for x in ox.facts_at(bi):
                if x[0] == "variant" and x[1].endswith("LogicalOperator"):
                    per[x[2]] = per.get(x[2], 0) + 1
    # children that are deliberately not part of the output scope
    SCOPE = {"Aggregate": (1, "an aggregation replaces the scope: only group keys and aggregate aliases leave it"),
             "AntiJoin": (1, "only the left input's columns survive an anti join"),
             "Modify": (1, "SPARQL update: produces no bindings"),
             "InsertTriple": (1, "SPARQL update: produces no bindings"), "DeleteTriple": (1, "SPARQL update: produces no bindings")}
    nchild = 0
    for v in lo["variants"]:
        need = 0
        for fl in v["fields"]:
            a = P.adts.get(fl[1])
            if a:
                need += sum(1 for ff in a["variants"][0]["fields"] if "LogicalOperator" in ff[1])
            elif "LogicalOperator" in fl[1]:
                need += 1
        if need == 0:
            continue
        nchild += 1
        skip, why = SCOPE.get(v["name"], (0, None))
        got = per.get(v["name"], 0)
        ctx.ob("R6", "collect_output_variables#%s" % v["name"], got >= need - skip,
               what=("exception: " + why) if (why and got >= need - skip) else
                    "collect_output_variables_recursive visits %d of the %d child operators of LogicalOperator::%s: variables bound "
                    "below are missing from the set the join-side test uses, and a predicate on them is pushed into the other "
                    "join input" % (got, need, v["name"]), where=oc.loc())
    ctx.floor("R6", nchild, 25, "operator kinds with child operators")

    # ---- R7 the conditions attached to a reordered join are those of *every* join-graph edge that crosses the cut
    # DPccp builds each join from JoinGraph::get_conditions(left, right). On a cyclic join graph, or with a composite key,
    # several edges cross one cut; a collector that stops at the first crossing edge drops the other predicates and the
    # reordered plan returns extra rows. The collector (and every helper it calls in the module) therefore walks the whole
    # edge list: no short-circuiting search over `edges`, and its loop over `edges` leaves only on exhaustion.
    from .c12_k8 import natural_loops
    gc = P.fn("JoinGraph::get_conditions")
    mod = gc.id.rsplit("::", 2)[0] + "::"
    S = set()
    work = [gc]
    while work:
        g = work.pop()
        if g.id in S:
            continue
        S.add(g.id)
        for h in P.family(g):
            if h.id not in S:
                work.append(h)
        for bi, t in g.calls():
            for c in set(P.call_targets(t)) | {callee_name(t)}:
                if c in P.fns and c.startswith(mod) and "BitSet" not in c and c not in S:
                    work.append(P.fns[c])
    SHORT = ("find", "find_map", "position", "any", "all", "first", "last", "nth", "take", "take_while", "skip_while", "min_by", "max_by",
             "min_by_key", "max_by_key", "next_back", "rposition")
    n7 = 0
    bad = None
    for gid in sorted(S):
        g = P.fns[gid]
        gx = FlowCx(P, g)
        for bi, t in g.calls():
            nm = (t.get("f") or callee_name(t)).split("::")[-1]
            if not t["args"] or not any(x == "cell:JoinGraph.edges" for x in gx.tags(t["args"][0])):
                continue
            n7 += 1
            if nm in SHORT:
                bad = (g, t["line"], "a short-circuiting `%s` over the edge list" % nm)
            if nm == "next" and g.kind != "closure":
                for h, body in natural_loops(g):
                    if bi not in body:
                        continue
                    sw = t.get("t")
                    exits = {a for a in body for b_ in g.succ()[a] if b_ not in body}
                    if exits - {sw, bi}:
                        bad = (g, t["line"], "a loop over the edge list that can be left before the list is exhausted")
    ctx.floor("R7", n7, 1, "uses of JoinGraph.edges in the condition collector")
    ctx.ob("R7", "JoinGraph::get_conditions#all-crossing-edges", bad is None,
           what="JoinGraph::get_conditions does not walk the whole edge list (%s in %s): a cut crossed by several edges - a cyclic join "
                "graph, a composite key - keeps only one edge's conditions and the reordered plan returns extra rows"
                % (bad[2] if bad else "", short_id(bad[0].id) if bad else ""), where=(bad[0].loc(bad[1]) if bad else gc.loc()))

    # ---- R4 informational
    cj = P.fn("Optimizer::collect_join_tree")
    cjx = FlowCx(P, cj)
    drops = False
    for bi, t in cj.calls():
        if callee_name(t) == cj.id:
            vs = [x[2] for x in cjx.facts_at(bi) if x[0] == "variant" and x[1].endswith("LogicalOperator")]
            if "Filter" in vs:
                drops = True
    ctx.ob("R4", "collect_join_tree#filter-wrappers", not drops, info=True,
           what="latent: collect_join_tree recurses into Filter.input and registers the bare relation, so a filter sitting on a join "
                "input is dropped when the join is reordered; no front end builds that shape today (joins carry no conditions over "
                "filtered scans), so this is reported as information only", where=cj.loc())
