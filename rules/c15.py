"""C15 - compression codecs are lossless (two clauses + layout agreement; DESIGN §5 C15)."""
import re
from .facts import short_id, CheckerError
from .flow import FlowCx, callee_name
from .panics import arith_traps
from . import common

EXPLANATION = (
    "Decides three structural clauses: (R1) in the codec modules and the compressed column/adjacency code no trapping "
    "+, -, * or unary minus is applied to two data-dependent operands of payload integer type (differences and sums "
    "of stored values must use wrapping/checked/saturating forms), modulo a reasoned exception table; (R2) every "
    "read-only lookup of a PropertyColumn that reads the hot `values` part also consults the `compressed` part; "
    "(R3) to_bytes / from_bytes of each codec write and read the same sequence of fixed-width little-endian integer "
    "types. Losslessness in general is not decided.")
ASSUMPTIONS = ["index / length arithmetic on usize and counters incremented by constants are not payload arithmetic",
               "shift amounts are bit widths in 0..=64 guarded at their sites; shifts are not checked"]

MODS = ("grafeo_core::storage::delta", "grafeo_core::storage::bitpack", "grafeo_core::storage::runlength",
        "grafeo_core::storage::dictionary", "grafeo_core::storage::bitvec", "grafeo_core::storage::codec",
        "grafeo_core::graph::lpg::property", "grafeo_core::index::adjacency", "grafeo_core::storage::epoch_store")
EXCEPT = {
    ("CodecSelector::select_for_integers", "Overflow:Sub"):
        "the closure is only built under `is_sorted` (w[0] <= w[1] for every window), so w[1] - w[0] cannot underflow",
    ("<RunLengthIterator as Iterator>::size_hint", "Overflow:Sub"):
        "advisory size hint; within_run never exceeds the current run's length by construction of next()",
}
PC = "grafeo_core::graph::lpg::property::PropertyColumn"
HOT_ONLY = {
    "iter": "documented hot-buffer iterator (iter_all covers compressed values); it has no caller outside tests",
    "count_types": "private helper of the compressor: counts what is in the hot buffer to choose what to compress",
}


def in_mods(f):
    return f.id.startswith(MODS) or any(("<" + m) in f.id for m in MODS)


def run(ctx):
    P = ctx.program()
    E = ctx.effects()
    # ---- R1
    nfun = 0
    ncand = 0
    seen = {}
    for f in sorted(P.fns.values(), key=lambda f: (f.file, f.line)):
        if not in_mods(f):
            continue
        nfun += 1
        fx = None
        for tr in arith_traps(f, ("i64", "u64", "u32", "i32", "u16", "u8")):
            k = tr["kind"]
            if not (k.startswith("Overflow:Add") or k.startswith("Overflow:Sub") or k.startswith("Overflow:Mul") or k == "OverflowNeg"):
                continue
            ops = tr["term"].get("ops") or tr["term"].get("args")
            if any(o[0] == "k" for o in ops):
                continue
            fx = fx or FlowCx(P, f)
            if k == "OverflowNeg":
                tg = fx.tags(ops[0])
                if "bin:BitAnd" in tg and "const:1" in tg:
                    continue  # -(x & 1): operand is 0 or 1
            ncand += 1
            root = short_id(f.parent) if f.kind == "closure" else short_id(f.id)
            key = (root, k)
            n = seen[key] = seen.get(key, 0) + 1
            inst = "%s#%s[%d]" % (root, k, n)
            if key in EXCEPT:
                ctx.ob("R1", inst, True, what="exception: " + EXCEPT[key], where=f.loc(tr["line"]))
                continue
            ctx.ob("R1", inst, False,
                   what="%s applies trapping `%s` to two data-dependent %s operands: encoding/decoding panics (overflow checks on) "
                        "or is only lossless by wrap-around for extreme values" % (short_id(f.id), k, tr["ty"]), where=f.loc(tr["line"]))
    ctx.floor("R1", nfun, 150, "functions analysed in codec modules")
    ctx.floor("R1", ncand, 2, "payload arithmetic candidates")
    # positive control: the wrapping forms the codecs rely on are present
    enc = P.fn("DeltaEncoding::encode_signed")
    decs = P.fn("DeltaEncoding::decode_signed")
    for f, nm in ((enc, "wrapping_sub"), (decs, "wrapping_add")):
        ok = any(callee_name(t).endswith("::" + nm) for g in P.family(f) for bi, t in g.calls())
        ctx.ob("R1", "%s#%s" % (short_id(f.id), nm), ok,
               what="%s does not compute its deltas with %s" % (short_id(f.id), nm), where=f.loc())

    # ---- R4 parallel arrays stay parallel: a chunk stores destination ids and edge ids in two arrays whose i-th
    # entries belong together. If compress() reorders (sorts) anything on the way, both codec inputs must come out of
    # the same reordered sequence - sorting one array alone re-pairs every edge with another destination.
    ac = P.fn("AdjacencyChunk::compress")
    acx = FlowCx(P, ac)
    enc = [(bi, t) for bi, t in ac.calls() if short_id(callee_name(t)) in ("DeltaBitPacked::encode", "BitPackedInts::pack", "DeltaEncoding::encode")]
    ctx.floor("R4", len(enc), 2, "codec inputs in AdjacencyChunk::compress")
    sorted_names = set()
    for bi, t in ac.calls():
        if callee_name(t).split("::")[-1] in ("sort", "sort_by", "sort_by_key", "sort_unstable", "sort_unstable_by", "sort_unstable_by_key",
                                              "reverse", "dedup", "retain", "swap", "rotate_left", "rotate_right") and t["args"]:
            sorted_names |= {x for x in acx.tags(t["args"][0]) if x.startswith("var:") and x != "var:self"}
    bad = []
    for bi, t in enc:
        tg = acx.tags(t["args"][0])
        if sorted_names and not (tg & sorted_names):
            bad.append(short_id(callee_name(t)))
    ctx.ob("R4", "AdjacencyChunk::compress#co-sorted", not bad,
           what="AdjacencyChunk::compress reorders %s but feeds %s from a sequence that was not reordered with it: after "
                "decompression each edge id is paired with another destination" % (sorted(sorted_names), bad), where=ac.loc())
    # and the decoder zips the two arrays back in index order
    ci = P.fn("CompressedAdjacencyChunk::iter")
    ctx.ob("R4", "CompressedAdjacencyChunk::iter#zips", any((t["f"] or "").endswith("Iterator::zip") for g in P.family(ci) for bi, t in g.calls()),
           what="CompressedAdjacencyChunk::iter does not zip destinations with edge ids", where=ci.loc())

    # ---- R2 dual hot/compressed reads
    n2 = 0
    for f in P.methods_of("PropertyColumn"):
        if f.impl_self != PC or f.impl_trait:
            continue
        acc = []
        for g in P.family(f):
            acc += E.own_acc(g)
        reads_values = any(a.cell == (PC, "values") and a.kind in ("R", "PASS") for a in acc)
        writes = any(a.cell[0] == PC and E.is_write(a) for a in acc)
        if not reads_values or writes:
            continue
        name = f.id.split("::")[-1]
        if name in ("len", "is_empty", "stats", "memory_usage", "compression_stats", "is_compressed", "compression_mode", "zone_map",
                    "might_match", "should_compress", "hot_len"):
            continue  # size / metadata accessors (count hot and compressed separately or are advisory)
        if name in HOT_ONLY:
            ctx.ob("R2", "PropertyColumn::%s" % name, True, what="exception: " + HOT_ONLY[name], where=f.loc())
            continue
        n2 += 1
        both = any(a.cell == (PC, "compressed") or a.cell == (PC, "compressed_count") for a in acc) or \
            any(callee_name(t).endswith("PropertyColumn::decompress_all") for g in P.family(f) for bi, t in g.calls())
        ctx.ob("R2", "PropertyColumn::%s" % name, both,
               what="PropertyColumn::%s reads the hot `values` map but never consults the `compressed` part: after compression a "
                    "stored property reads as absent" % name, where=f.loc())
    ctx.floor("R2", n2, 1, "read-only PropertyColumn lookups")

    # ---- R3 to_bytes / from_bytes layouts
    pairs = {}
    for f in P.fns.values():
        if f.kind == "closure" or not f.impl_self or not f.id.startswith("grafeo_core::storage::"):
            continue
        nm = f.id.split("::")[-1]
        if nm in ("to_bytes", "from_bytes"):
            pairs.setdefault(f.impl_self, {})[nm] = f
    n3 = 0
    for ty, d in sorted(pairs.items()):
        if len(d) != 2:
            continue
        n3 += 1
        def seq(fn, what):
            out = []
            for g in P.family(fn):
                for bi, t in g.calls():
                    m = re.match(r"^core::num::<impl (\w+)>::%s$" % what, t["f"] or "")
                    if m:
                        out.append((t["line"], m.group(1)))
            return [x[1] for x in sorted(out)]
        a, b = seq(d["to_bytes"], "to_le_bytes"), seq(d["from_bytes"], "from_le_bytes")
        ctx.ob("R3", "%s#layout" % ty.split("::")[-1], a == b,
               what="%s::to_bytes writes %s but from_bytes reads %s" % (ty.split("::")[-1], a, b), where=d["to_bytes"].loc())
    ctx.floor("R3", n3, 5, "codecs with to_bytes/from_bytes")
