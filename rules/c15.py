"""C15 - compression codecs are lossless (two clauses + layout agreement; DESIGN §5 C15)."""
import re
from .facts import short_id, CheckerError
from .flow import FlowCx, callee_name, find_aggregates
from .panics import arith_traps
from . import common

EXPLANATION = (
    "Decides structural clauses: (R7) a reusable encoder's clear()/reset() resets every field its accumulating methods write; (R1) in the codec modules and the compressed column/adjacency code no trapping "
    "+, -, * or unary minus is applied to two data-dependent operands of payload integer type (differences and sums "
    "of stored values must use wrapping/checked/saturating forms), modulo a reasoned exception table; (R2) every "
    "read-only lookup of a PropertyColumn that reads the hot `values` part also consults the `compressed` part; "
    "(R3) to_bytes / from_bytes of each codec write and read the same sequence of fixed-width little-endian integer "
    "types. (R4) AdjacencyChunk::compress feeds both codecs from the same reordered sequence; (R5) casts to 8/16-bit integers are bounded by a mask, remainder, bit count, narrower source or dominating range check; (R6) clamping arithmetic on payload values only in encoders with a sortedness precondition whose callers establish it, and the signed delta codec uses the modular pair wrapping_sub / wrapping_add. R1 and R5 also run on the succinct-indexes configuration, which no workspace crate enables. "
    "Losslessness in general is not decided.")
ASSUMPTIONS = ["index / length arithmetic on usize and counters incremented by constants are not payload arithmetic",
               "shift amounts are bit widths in 0..=64 guarded at their sites; shifts are not checked"]

MODS = ("grafeo_core::storage::delta", "grafeo_core::storage::bitpack", "grafeo_core::storage::runlength",
        "grafeo_core::storage::dictionary", "grafeo_core::storage::bitvec", "grafeo_core::storage::codec",
        "grafeo_core::graph::lpg::property", "grafeo_core::index::adjacency", "grafeo_core::storage::epoch_store")
EXCEPT = {
    ("CodecSelector::select_for_integers", "Overflow:Sub"):
        "the closure is only built under `is_sorted` (w[0] <= w[1] for every window), so w[1] - w[0] cannot underflow",
    ("SuccinctBitVector::from_bitvec", "Overflow:Add"):
        "u32 accumulators of bit counts: bounded by the vector's length in bits; ranks are stored as u32 by design (vectors below 2^32 bits)",
    ("SuccinctBitVector::from_bitvec", "Overflow:Sub"):
        "difference of a running bit count and its value at the superblock start / bits in a word minus the ones in it: "
        "the minuend is never smaller, by construction of the loop",
    ("<RunLengthIterator as Iterator>::size_hint", "Overflow:Sub"):
        "advisory size hint; within_run never exceeds the current run's length by construction of next()",
}
SUCCINCT = ("grafeo_core::storage::succinct",)
PC = "grafeo_core::graph::lpg::property::PropertyColumn"
HOT_ONLY = {
    "iter": "documented hot-buffer iterator (iter_all covers compressed values); it has no caller outside tests",
    "count_types": "private helper of the compressor: counts what is in the hot buffer to choose what to compress",
}


def in_mods(f):
    return f.id.startswith(MODS) or any(("<" + m) in f.id for m in MODS)


def r1(ctx, P, mods, floor_fn, floor_cand):
    """R1 over the functions of the given modules"""
    nfun = 0
    ncand = 0
    seen = {}
    for f in sorted(P.fns.values(), key=lambda f: (f.file, f.line)):
        if not (f.id.startswith(mods) or any(("<" + m) in f.id for m in mods)):
            continue
        nfun += 1
        fx = None
        for tr in arith_traps(f, ("i64", "u64", "u32", "i32", "u16", "u8")):
            k = tr["kind"]
            if not (k.startswith("Overflow:Add") or k.startswith("Overflow:Sub") or k.startswith("Overflow:Mul") or k == "OverflowNeg"):
                continue
            ops = tr["term"].get("ops") or tr["term"].get("args")
            if any(o[0] == "k" for o in ops):
                continue
            fx = fx or FlowCx(P, f)
            if k == "OverflowNeg":
                tg = fx.tags(ops[0])
                if "bin:BitAnd" in tg and "const:1" in tg:
                    continue  # -(x & 1): operand is 0 or 1
            ncand += 1
            root = short_id(f.parent) if f.kind == "closure" else short_id(f.id)
            key = (root, k)
            n = seen[key] = seen.get(key, 0) + 1
            inst = "%s#%s[%d]" % (root, k, n)
            if key in EXCEPT:
                ctx.ob("R1", inst, True, what="exception: " + EXCEPT[key], where=f.loc(tr["line"]))
                continue
            ctx.ob("R1", inst, False,
                   what="%s applies trapping `%s` to two data-dependent %s operands: encoding/decoding panics (overflow checks on) "
                        "or is only lossless by wrap-around for extreme values" % (short_id(f.id), k, tr["ty"]), where=f.loc(tr["line"]))
    ctx.floor("R1", nfun, floor_fn, "functions analysed in %s" % (mods[-1] if len(mods) == 1 else "codec modules"))
    ctx.floor("R1", ncand, floor_cand, "payload arithmetic candidates")


def clear_resets_everything(ctx, P, rule):
    """An encoder that is reused after clear()/reset() must start from the state new() gives: every field that an
    accumulating method writes is also reset. A map left behind (string -> code) makes the next batch emit codes of the
    discarded batch, and decoding returns other strings than were encoded."""
    from .c17 import field_profile
    from collections import defaultdict
    M = defaultdict(dict)
    for f in P.fns.values():
        if f.kind == "closure" or not f.impl_self or f.impl_trait or "::tests::" in f.id:
            continue
        if f.impl_self.startswith(("grafeo_core::storage::", "grafeo_core::graph::lpg::property", "grafeo_core::index::")):
            M[f.impl_self][f.id.split("::")[-1]] = f
    n = 0
    for T, ms in sorted(M.items()):
        for cn in ("clear", "reset"):
            if cn not in ms:
                continue
            cw = {k for k, v in field_profile(P, ms[cn], T, root=1).items() if v["w"]}
            if not cw:
                continue        # interior mutability (locks / atomics): not a field-assignment type
            acc = {}
            for nm, g in ms.items():
                if nm in ("new", "default", "clear", "reset") or nm.startswith(("with_", "from_")):
                    continue
                for k, v in field_profile(P, g, T, root=1).items():
                    if v["w"]:
                        acc.setdefault(k, set()).add(nm)
            n += 1
            for k in sorted(acc):
                ctx.ob(rule, "%s::%s#%s" % (T.split("::")[-1], cn, k), k in cw,
                       what="%s::%s does not reset `%s`, which %s write(s): a reused encoder carries state of the discarded batch into "
                            "the next one, and what it encodes no longer decodes to the input" % (T.split("::")[-1], cn, k, ", ".join(sorted(acc[k]))),
                       where=ms[cn].loc())
    ctx.floor(rule, n, 1, "reusable encoders with a clear()/reset()")


def run(ctx):
    P = ctx.program()
    E = ctx.effects()
    clear_resets_everything(ctx, P, "R7")
    # ---- R1 / R5 on the codec modules of the main configuration, and on the succinct structures, which only exist
    # under the `succinct-indexes` feature (no crate of the workspace enables it, so the main build never contains them)
    r1(ctx, P, MODS, 150, 2)
    r5(ctx, P, MODS, 2)
    PS = ctx.program("succinct")
    r1(ctx, PS, SUCCINCT, 50, 2)
    r5(ctx, PS, SUCCINCT, 2)
    # positive control: the wrapping forms the codecs rely on are present
    enc = P.fn("DeltaEncoding::encode_signed")
    decs = P.fn("DeltaEncoding::decode_signed")
    # anchor control (not a verdict): the delta codec still computes differences / sums in a form R1 judges - a
    # non-trapping method, or a trapping operator that r1() above has inspected
    for f, op, trap in ((enc, "sub", "Sub"), (decs, "add", "Add")):
        forms = tuple("::" + pre + op for pre in ("wrapping_", "overflowing_", "checked_", "saturating_"))
        fam = list(P.family(f))
        ok = any(callee_name(t).endswith(forms) for g in fam for bi, t in g.calls()) or \
            any(tr["kind"].endswith(trap) for g in fam for tr in arith_traps(g, ("i64", "u64")))
        if not ok:
            raise CheckerError("C15-R1: %s no longer computes a difference/sum in any form the rule knows: anchor lost" % short_id(f.id))
        ctx.ob("R1", "%s#%s" % (short_id(f.id), op), True, what="delta %s is computed in a form R1 judges" % op, where=f.loc())

    # ---- R4 parallel arrays stay parallel: a chunk stores destination ids and edge ids in two arrays whose i-th
    # entries belong together. If compress() reorders (sorts) anything on the way, both codec inputs must come out of
    # the same reordered sequence - sorting one array alone re-pairs every edge with another destination.
    ac = P.fn("AdjacencyChunk::compress")
    acx = FlowCx(P, ac)
    enc = [(bi, t) for bi, t in ac.calls() if short_id(callee_name(t)) in ("DeltaBitPacked::encode", "BitPackedInts::pack", "DeltaEncoding::encode")]
    ctx.floor("R4", len(enc), 2, "codec inputs in AdjacencyChunk::compress")
    sorted_names = set()
    for bi, t in ac.calls():
        if callee_name(t).split("::")[-1] in ("sort", "sort_by", "sort_by_key", "sort_unstable", "sort_unstable_by", "sort_unstable_by_key",
                                              "reverse", "dedup", "retain", "swap", "rotate_left", "rotate_right") and t["args"]:
            sorted_names |= {x for x in acx.tags(t["args"][0]) if x.startswith("var:") and x != "var:self"}
    bad = []
    for bi, t in enc:
        tg = acx.tags(t["args"][0])
        if sorted_names and not (tg & sorted_names):
            bad.append(short_id(callee_name(t)))
    ctx.ob("R4", "AdjacencyChunk::compress#co-sorted", not bad,
           what="AdjacencyChunk::compress reorders %s but feeds %s from a sequence that was not reordered with it: after "
                "decompression each edge id is paired with another destination" % (sorted(sorted_names), bad), where=ac.loc())
    # and the decoder zips the two arrays back in index order
    ci = P.fn("CompressedAdjacencyChunk::iter")
    ctx.ob("R4", "CompressedAdjacencyChunk::iter#zips", any((t["f"] or "").endswith("Iterator::zip") for g in P.family(ci) for bi, t in g.calls()),
           what="CompressedAdjacencyChunk::iter does not zip destinations with edge ids", where=ci.loc())

    # ---- R6 clamping arithmetic is lossy: a difference computed with saturating_sub is only the true difference when
    # the input is sorted. (a) every saturating_* on two data-dependent payload operands in the codec modules sits in an
    # encoder whose documented precondition is sorted input; (b) every caller of such an encoder establishes the
    # precondition: the codec selector offers the delta codec only under its sortedness test, and the adjacency chunk
    # sorts what it feeds in. The signed codec has no precondition and must use the modular pair
    # wrapping_sub / wrapping_add (or overflowing_*): a clamped delta decodes to a different value.
    SORTED_ENCODERS = {"DeltaEncoding::encode": "documented: values must be sorted ascending (debug_assert); unsorted data goes to encode_signed",
                       "DeltaBitPacked::encode": "documented: encodes sorted values; callers are checked by R6(b)"}
    nsat = 0
    for f in sorted(P.fns.values(), key=lambda f: (f.file, f.line)):
        if not in_mods(f) or "::tests::" in f.id:
            continue
        for bi, t in f.calls():
            nm = callee_name(t).split("::")[-1]
            if nm in ("saturating_sub", "saturating_add", "saturating_mul") and not any(a[0] == "k" for a in t["args"]) \
                    and any(x in callee_name(t) for x in ("impl u64", "impl i64", "impl u32", "impl i32")):
                nsat += 1
                root = short_id(f.parent) if f.kind == "closure" and f.parent else short_id(f.id)
                ctx.ob("R6", "%s#%s" % (root, nm), root in SORTED_ENCODERS,
                       what=("exception: " + SORTED_ENCODERS[root]) if root in SORTED_ENCODERS else
                            "%s computes a payload difference/sum with %s: values whose step does not fit are clamped, so the "
                            "decoder (which adds the deltas back) returns other numbers than were stored" % (short_id(f.id), nm),
                       where=f.loc(t["line"]))
    ctx.floor("R6", nsat, 2, "clamping arithmetic sites in the codec modules")
    for fn_name, op, inv in (("DeltaEncoding::encode_signed", "sub", None), ("DeltaEncoding::decode_signed", "add", None), ("DeltaEncoding::decode", "add", None)):
        f = P.fn(fn_name)
        fam = list(P.family(f))
        modular = any(callee_name(t).endswith(("::wrapping_" + op, "::overflowing_" + op)) for g in fam for bi, t in g.calls())
        lossy = [callee_name(t).split("::")[-1] for g in fam for bi, t in g.calls()
                 if callee_name(t).split("::")[-1] in ("saturating_" + op, "checked_" + op) and not any(a[0] == "k" for a in t["args"])]
        ctx.ob("R6", "%s#modular-%s" % (fn_name, op), modular and not lossy,
               what="%s must compute its %s modulo 2^64 (wrapping_%s); found %s: for steps that do not fit in the integer type "
                    "encode and decode are no longer inverse" % (fn_name, "differences" if op == "sub" else "sums", op, lossy or "no modular form"),
               where=f.loc())
    sel = P.fn("CodecSelector::select_for_integers")
    sx = FlowCx(P, sel)
    dsel = find_aggregates(sel, "CompressionCodec", "DeltaBitPacked")
    ctx.floor("R6", len(dsel), 1, "places where the selector offers DeltaBitPacked")
    for bi, si, rv, ln in dsel:
        SLICING = ("Index>::index", "::index", "::get", "::split_at", "::take", "::first_chunk", "::chunks", "::min")
        def whole_input(x):
            # the tested sequence is the function's input itself, not a prefix / sample of it: what is encoded later is the
            # whole slice, so a test on `&values[..n]` says nothing about the rest
            recv = x[3][0] if x[3] and isinstance(x[3][0], (set, frozenset)) else set()
            cut = sorted(t for t in recv if t.startswith("call:") and t.endswith(SLICING)) + sorted(t for t in recv if t.startswith("agg:Range"))
            return not cut
        ok = any(x[0] == "call" and x[2] is True and (x[1].endswith("is_sorted") or
                 (x[1].endswith("::all") and any(("bin:Le" in a or "bin:Lt" in a) for a in x[3]))) and whole_input(x) for x in sx.facts_at(bi))
        ctx.ob("R6", "CodecSelector::select_for_integers#delta-only-if-sorted", ok,
               what="the codec selector offers DeltaBitPacked without having tested that all the values it was given are sorted (no test, or a test on a slice / sample of them): the delta encoder "
                    "clamps negative steps to zero and the column decodes to other values", where=sel.loc(ln))
    ci = P.fn("TypeSpecificCompressor::compress_integers")
    cix = FlowCx(P, ci)
    for bi, t in ci.calls():
        if short_id(callee_name(t)) in SORTED_ENCODERS:
            ok = any(x[0] == "variant" and x[1].endswith("CompressionCodec") and x[2] == "DeltaBitPacked" and
                     any(tg.endswith("select_for_integers") for tg in x[3]) for x in cix.facts_at(bi))
            ctx.ob("R6", "TypeSpecificCompressor::compress_integers#delta-under-selector", ok,
                   what="compress_integers calls the sorted-input delta encoder on a path not chosen by the codec selector", where=ci.loc(t["line"]))
    real_sorts = set()
    for bi, t in ac.calls():
        if callee_name(t).split("::")[-1] in ("sort", "sort_by", "sort_by_key", "sort_unstable", "sort_unstable_by", "sort_unstable_by_key") and t["args"]:
            real_sorts |= {x for x in acx.tags(t["args"][0]) if x.startswith("var:") and x != "var:self"}
    for bi, t in enc:
        if short_id(callee_name(t)) in SORTED_ENCODERS:
            ctx.ob("R6", "AdjacencyChunk::compress#sorted-input", bool(acx.tags(t["args"][0]) & real_sorts),
                   what="AdjacencyChunk::compress feeds the sorted-input delta encoder from a sequence it has not sorted", where=ac.loc(t["line"]))

    # ---- R2 dual hot/compressed reads
    n2 = 0
    for f in P.methods_of("PropertyColumn"):
        if f.impl_self != PC or f.impl_trait:
            continue
        acc = []
        for g in P.family(f):
            acc += E.own_acc(g)
        reads_values = any(a.cell == (PC, "values") and a.kind in ("R", "PASS") for a in acc)
        writes = any(a.cell[0] == PC and E.is_write(a) for a in acc)
        if not reads_values or writes:
            continue
        name = f.id.split("::")[-1]
        if name in ("len", "is_empty", "stats", "memory_usage", "compression_stats", "is_compressed", "compression_mode", "zone_map",
                    "might_match", "should_compress", "hot_len"):
            continue  # size / metadata accessors (count hot and compressed separately or are advisory)
        if name in HOT_ONLY:
            ctx.ob("R2", "PropertyColumn::%s" % name, True, what="exception: " + HOT_ONLY[name], where=f.loc())
            continue
        n2 += 1
        both = any(a.cell == (PC, "compressed") or a.cell == (PC, "compressed_count") for a in acc) or \
            any(callee_name(t).endswith("PropertyColumn::decompress_all") for g in P.family(f) for bi, t in g.calls())
        ctx.ob("R2", "PropertyColumn::%s" % name, both,
               what="PropertyColumn::%s reads the hot `values` map but never consults the `compressed` part: after compression a "
                    "stored property reads as absent" % name, where=f.loc())
    ctx.floor("R2", n2, 1, "read-only PropertyColumn lookups")

    # ---- R3 to_bytes / from_bytes layouts
    pairs = {}
    for f in P.fns.values():
        if f.kind == "closure" or not f.impl_self or not f.id.startswith("grafeo_core::storage::"):
            continue
        nm = f.id.split("::")[-1]
        if nm in ("to_bytes", "from_bytes"):
            pairs.setdefault(f.impl_self, {})[nm] = f
    n3 = 0
    for ty, d in sorted(pairs.items()):
        if len(d) != 2:
            continue
        n3 += 1
        def seq(fn, what):
            out = []
            for g in P.family(fn):
                for bi, t in g.calls():
                    m = re.match(r"^core::num::<impl (\w+)>::%s$" % what, t["f"] or "")
                    if m:
                        out.append((t["line"], m.group(1)))
            return [x[1] for x in sorted(out)]
        a, b = seq(d["to_bytes"], "to_le_bytes"), seq(d["from_bytes"], "from_le_bytes")
        ctx.ob("R3", "%s#layout" % ty.split("::")[-1], a == b,
               what="%s::to_bytes writes %s but from_bytes reads %s" % (ty.split("::")[-1], a, b), where=d["to_bytes"].loc())
    ctx.floor("R3", n3, 5, "codecs with to_bytes/from_bytes")


_W = {"u8": 8, "i8": 8, "u16": 16, "i16": 16, "u32": 32, "i32": 32, "u64": 64, "i64": 64, "usize": 64, "isize": 64, "u128": 128, "i128": 128}
_BITCOUNT = ("leading_zeros", "trailing_zeros", "count_ones", "count_zeros", "leading_ones", "trailing_ones")


def _upper_bound(f, op, depth=0):
    """a constant upper bound of an unsigned operand that follows from its definition alone, or None"""
    if op[0] == "k":
        try:
            return int(str(op[1]))
        except ValueError:
            return None
    if depth > 8 or op[0] not in ("m", "c"):
        return None
    pl = op[1]
    if len(pl) == 2 and isinstance(pl[1], str) and pl[1].startswith("f:0:(tuple)"):
        pl = pl[:1]      # first field of a checked-arithmetic tuple
    if len(pl) != 1:
        return None
    ds = [d for d in f.defs().get(pl[0], []) if len(d[2]) == 1]
    if not ds:
        return None
    best = 0
    for d in ds:
        rv = d[3]
        b = None
        if rv[0] == "use":
            b = _upper_bound(f, rv[1], depth + 1)
        elif rv[0] == "cast" and rv[1] == "IntToInt":
            b = _upper_bound(f, rv[2], depth + 1)
            if rv[4] in _W and not rv[4].startswith("i") and (b is None or b > 2 ** _W[rv[4]] - 1):
                b = 2 ** _W[rv[4]] - 1        # the source type itself bounds the value
        elif rv[0] == "bin":
            x, y = _upper_bound(f, rv[2], depth + 1), _upper_bound(f, rv[3], depth + 1)
            o = rv[1]
            if o == "BitAnd":
                b = min([v for v in (x, y) if v is not None], default=None)
            elif o == "Rem" and y is not None and y > 0:
                b = y - 1
            elif o in ("Add", "AddWithOverflow") and x is not None and y is not None:
                b = x + y
            elif o in ("Mul", "MulWithOverflow") and x is not None and y is not None:
                b = x * y
            elif o in ("Sub", "SubWithOverflow", "Div", "Shr") and x is not None:
                b = x
            elif o in ("Eq", "Ne", "Lt", "Le", "Gt", "Ge"):
                b = 1
        elif rv[0] == "call":
            nm = callee_name(rv[1]).split("::")[-1]
            if nm in _BITCOUNT:
                b = 128
            elif nm == "min":
                vs = [_upper_bound(f, a, depth + 1) for a in rv[1]["args"]]
                b = min([v for v in vs if v is not None], default=None)
        if b is None:
            return None
        best = max(best, b)
    return best


def r5(ctx, P, mods, floor):
    """R5: a cast to an 8- or 16-bit integer in the codec modules keeps the value: its operand is bounded by its own
    definition (a mask, a remainder, a bit count, a narrower source type) or by a guard that dominates the cast.
    A count or a sum narrowed without either loses its high bits, and what is read back is not what was stored."""
    n = 0
    seen = {}
    for f in sorted(P.fns.values(), key=lambda f: (f.file, f.line)):
        if not (f.id.startswith(mods) or any(("<" + m) in f.id for m in mods)) or "::tests::" in f.id:
            continue
        fx = None
        for bi, b in enumerate(f.blocks):
            if b["cl"]:
                continue
            for st in b["s"]:
                rv = st[1]
                if not (rv[0] == "cast" and rv[1] == "IntToInt" and rv[3] in _W and rv[4] in _W and _W[rv[3]] < _W[rv[4]] and _W[rv[3]] <= 16):
                    continue
                if rv[2][0] == "k":
                    continue
                n += 1
                root = short_id(f.parent) if f.kind == "closure" else short_id(f.id)
                key = (root, "%s->%s" % (rv[4], rv[3]))
                k = seen[key] = seen.get(key, 0) + 1
                limit = 2 ** (_W[rv[3]] - (1 if rv[3].startswith("i") else 0)) - 1
                ub = _upper_bound(f, rv[2])
                ok = ub is not None and ub <= limit
                if not ok:
                    fx = fx or FlowCx(P, f)
                    vt = fx.tags(rv[2])

                    def bounded(fact):
                        if fact[0] != "cmp":
                            return False
                        _, op, a, c, _blk = fact
                        for x, y, o in ((a, c, op), (c, a, {"Lt": "Gt", "Gt": "Lt", "Le": "Ge", "Ge": "Le"}.get(op, op))):
                            if x == vt and o in ("Lt", "Le") and y and all(t.startswith("const:") and t[6:].lstrip("-").isdigit() and int(t[6:]) <= limit + (1 if o == "Lt" else 0) for t in y):
                                return True
                        return False
                    ok = fx.every_path_has(bi, bounded)
                ctx.ob("R5", "%s#%s[%d]" % (root, key[1], k), ok,
                       what="%s narrows a %s to %s without a bound on the value (no mask, remainder, bit count or dominating range "
                            "check): values above %d lose their high bits, so what is read back differs from what was stored"
                            % (short_id(f.id), rv[4], rv[3], limit), where=f.loc(st[2]))
    ctx.floor("R5", n, floor, "narrowing casts to 8/16-bit integers in %s" % (mods[-1] if len(mods) == 1 else "codec modules"))
