"""C01 - transactions read a stable snapshot (DESIGN §5 C01)."""
from .facts import short_id, CheckerError
from .flow import FlowCx, find_calls, callee_name, return_table
from .cells import FnFlow
from . import common

EXPLANATION = (
    "Decides structural necessary conditions of snapshot reads on the resolved MIR: (R0) every operator type that "
    "owns a store handle has a transaction-context API and every construction in the planners flows through it; "
    "(R1) no session read path decides visibility with the store's own clock (LpgStore.current_epoch) instead of the "
    "epoch handed down by the session; (R2) no single-version store cell is both written in place by transactional "
    "mutations and read by session read paths; (R3) foreign uncommitted versions are hidden either by commit-time "
    "re-stamping or by a status-consulting visibility predicate; (R4) RDF operators read through the transaction "
    "buffer; (R5) the MVCC visibility predicates have exactly the decision tables created<=view, deleted>view, own "
    "writes visible unless deleted; (R6) the session passes its (start epoch, tx id) context to the planner and to the "
    "versioned accessors, and the context of an open transaction is its start epoch; (R7) the session's point lookups and "
    "neighbour listings reach the store only through versioned accessors; (R8b) a context-aware operator keeps the result of a raw id enumeration only after the per-id versioned check or on the path where it has no viewing epoch; (R8) every context-aware operator consumes its "
    "(epoch, tx id) in the versioned store calls it makes. (R9) every call that hands a transaction context on takes the viewing epoch from the same context as the transaction id. "
    "It does not execute any read.")
ASSUMPTIONS = [
    "virtual calls are linked by rapid type analysis from the session entry points (operator types the planners construct)",
    "statistics / cardinality estimation are advisory and exempt from the clock rule (they feed the optimizer only, C09)",
]

ADVISORY = {"ensure_statistics_fresh", "compute_statistics", "statistics", "estimate_label_cardinality", "estimate_avg_degree"}
CLOCK_FALLBACK_OK = {
    # `unwrap_or_else(|| store.current_epoch())` fallbacks in operators whose construction R0 proves always
    # passes through with_tx_context (the closure is dead on planner-built operators)
    "<CreateNodeOperator as Operator>::next::{closure#0}", "<CreateEdgeOperator as Operator>::next::{closure#0}",
    "<DeleteNodeOperator as Operator>::next::{closure#0}", "<DeleteEdgeOperator as Operator>::next::{closure#0}",
}


def _is_ctx_fallback(P, f, ctx_api):
    """`self.viewing_epoch.unwrap_or_else(|| self.store.current_epoch())` inside an operator that has a
    context API: the closure only runs when no context was given, which R0 excludes for planner-built operators"""
    if f.kind != "closure" or len(f.calls()) > 2:
        return False
    par = P.fns.get(f.parent)
    return bool(par and par.impl_self in ctx_api and ctx_api[par.impl_self] is not None)


def _has(tags, *subs):
    return all(any(s == t or (s.endswith("*") and t.startswith(s[:-1])) for t in tags) for s in subs)


def run(ctx):
    P = ctx.program()
    E = ctx.effects()
    common.check_classification(P)
    entries = common.read_entries(P)
    reach, types, parent = P.reach_rta(entries)
    ctx.analysed["main"]["rta_reachable_from_session"] = len(reach)

    # ------------------------------------------------------------------ R0 context plumbing
    op_types = {}
    for im in P.impls:
        if im["trait"] and im["trait"].split("::")[-1] in ("Operator", "Predicate") and im["self"] in P.adts:
            a = P.adts[im["self"]]
            stores = [f[0] for v in a["variants"] for f in v["fields"] if "LpgStore" in f[1]]
            if stores:
                op_types[im["self"]] = im["trait"].split("::")[-1]
    ctx.floor("R0", len(op_types), 15, "operator/predicate types owning an LpgStore handle")
    ctx_api = {}
    for t in op_types:
        ms = [m for m in P.methods_of(t.split("::")[-1]) if m.impl_self == t and m.id.split("::")[-1] == "with_tx_context"]
        ctx_api[t] = ms[0] if ms else None
    planner_fns = [f for f in P.fns.values() if f.krate == "grafeo_engine" and "::query::planner" in f.id]
    nsites = 0
    for t, api in sorted(ctx_api.items()):
        tn = t.split("::")[-1]
        constructed = []
        for f in planner_fns:
            for bi, tm in f.calls():
                cal = callee_name(tm)
                cf = P.fns.get(cal)
                if cf is None or cf.impl_self != t or cf.impl_trait:
                    continue
                # a constructor: returns Self
                dty = f.local_ty(tm["dst"][0])
                if dty.split("<")[0] != t:
                    continue
                if cf.argc >= 1 and cf.local_ty(1).split("<")[0] == t:
                    continue  # builder method (takes self), not a constructor
                constructed.append((f, bi, tm))
        if not constructed:
            continue
        if api is None:
            if tn in ("VectorScanOperator", "VectorJoinOperator"):
                continue  # C18 (N/A) operators; listed in notes
            ctx.ob("R0", "%s#no-context-api" % tn, False,
                   what="%s owns an LpgStore handle and is built by the planner, but has no with_tx_context: its store "
                        "reads/writes cannot honour the session's snapshot" % tn, where=P.adts[t]["file"] + ":" + str(P.adts[t]["line"]))
            continue
        for (f, bi, tm) in constructed:
            nsites += 1
            flow = E.flow(f)
            ops, _ = flow.forward_ops([tm["dst"][0]])
            ok = any((o["resolved"] or o["callee"]) == api.id for o in ops)
            k = sum(1 for (g, b2, _) in constructed if g is f and b2 < bi)
            ctx.ob("R0", "%s@%s[%d]" % (tn, short_id(f.id), k), ok,
                   what="%s constructed in %s does not flow through %s::with_tx_context: it runs with the store clock and "
                        "no transaction id" % (tn, short_id(f.id), tn), where=f.loc(tm["line"]))
    ctx.floor("R0", nsites, 9, "planner construction sites of context-aware operators")

    # ------------------------------------------------------------------ R1 one clock
    ce = P.fn("LpgStore::current_epoch")
    lpg_methods = {m.id for m in P.methods_of("LpgStore") if m.impl_self == common.LPG}
    clocked = set()
    # LpgStore methods from which current_epoch is reachable through LpgStore methods only
    within = P.callers_closure([ce.id])
    for m in lpg_methods:
        if m in within:
            # path must stay inside LpgStore (+closures)
            r = P.reach([m], edge_filter=lambda x, y: y in lpg_methods or P.fns[y].kind == "closure" or y == ce.id)
            if ce.id in r:
                clocked.add(m)
    ctx.floor("R1", len(clocked), 10, "LpgStore accessors that consult the store clock")
    seen = set()
    for fid in sorted(reach):
        f = P.fns[fid]
        root = f.parent if f.kind == "closure" else fid
        if root in lpg_methods:
            continue
        for bi, tm in f.calls():
            cal = callee_name(tm)
            if cal not in clocked and cal != ce.id:
                continue
            acc = cal.split("::")[-1]
            if acc in ADVISORY:
                continue
            inst = "%s->%s" % (short_id(fid), acc)
            if inst in seen:
                continue
            seen.add(inst)
            if cal == ce.id and _is_ctx_fallback(P, f, ctx_api):
                ctx.ob("R1", inst, True, what="exception: fallback closure, dead when the operator has a context (R0)", where=f.loc(tm["line"]))
                continue
            ctx.ob("R1", inst, False,
                   what="%s, reachable from a session read, calls LpgStore::%s, which decides visibility with the store's own "
                        "clock (never advanced by commits) instead of the session's viewing epoch" % (short_id(fid), acc),
                   where=f.loc(tm["line"]), detail={"path": [short_id(x) for x in P.path_from(parent, fid)][-8:]})
    ctx.floor("R1", len(seen), 4, "call sites of clocked accessors on session paths")

    # ------------------------------------------------------------------ R2 in-place mutation under readers (cell level)
    filt = common.no_child_operator(P)
    muts = common.mutation_operator_nexts(P) + common.session_fns(P, common.SESSION_DIRECT_MUT, 3)
    Wm = set()
    for m in muts:
        W, _ = E.closure_sets([m], edge_filter=filt)
        Wm |= W
    Rr = set()
    for fid in reach:
        Rr |= E.reads_own(P.fns[fid])
    n2 = 0
    for name, cls in sorted(common.LPG_CELLS.items()):
        if cls not in ("data", "index"):
            continue
        c = (common.LPG, name)
        if c in Wm and c in Rr:
            n2 += 1
            ctx.ob("R2", "cell:LpgStore.%s" % name, False,
                   what="LpgStore.%s is single-version: transactional mutations write it in place and session read paths "
                        "read it, so a snapshot that began earlier sees later (even uncommitted) changes" % name,
                   where=P.adts[common.LPG]["file"])
    ctx.floor("R2", n2, 0, "single-version cells shared by writers and snapshot readers")

    # ------------------------------------------------------------------ R3 commit is what publishes
    scommit = P.fn("Session::commit")
    undo = {P.fn("LpgStore::discard_uncommitted_versions").id}
    Wc = set()
    for fid in P.reach([scommit], edge_filter=lambda x, y: y not in undo):
        Wc |= E.writes_own(P.fns[fid])
    restamps = any(c[0] == common.LPG and common.LPG_CELLS.get(c[1]) == "versioned" for c in Wc)
    vis = P.fn("VersionInfo::is_visible_to")
    _, Rv = E.closure_sets([vis])
    consults = any(c[0] == common.TM for c in Rv)
    # versions are stamped with the writer's start epoch?
    ctx.ob("R3", "foreign-uncommitted-hidden", restamps or consults,
           what="versions are stamped with the writer's start epoch, commit does not re-stamp them and "
                "VersionInfo::is_visible_to falls back to a pure epoch comparison without consulting transaction status: "
                "any reader whose epoch >= the writer's start epoch sees uncommitted data (dirty read)",
           where=vis.loc())

    # ------------------------------------------------------------------ R4 RDF reads honour the buffer
    raw_reads = {P.fn("RdfStore::" + n).id: n for n in ("find", "triples", "contains", "triples_with_subject",
                                                          "triples_with_predicate", "triples_with_object")}
    n4 = 0
    for f in P.fns.values():
        if f.krate != "grafeo_engine" or "::query::planner_rdf::" not in f.id:
            continue
        for bi, tm in f.calls():
            cal = callee_name(tm)
            if cal in raw_reads:
                n4 += 1
                k = raw_reads[cal]
                ctx.ob("R4", "%s#%s" % (short_id(f.id), k), False,
                       what="%s reads the committed triple set with RdfStore::%s instead of find_with_pending(tx): a "
                            "transaction does not see its own pending triples" % (short_id(f.id), k), where=f.loc(tm["line"]))
    ctx.floor("R4", n4, 0, "raw triple reads in planner_rdf operators")
    fwp = P.fn("RdfStore::find_with_pending")
    ctx.ob("R4", "find_with_pending#defined", True, what="find_with_pending exists", where=fwp.loc())

    # ------------------------------------------------------------------ R5 visibility decision tables
    _r5(ctx, P)

    # ------------------------------------------------------------------ R6 session context reaches planner and accessors
    gtc = P.fn("Session::get_transaction_context")
    execs = common.session_fns(P, common.SESSION_EXEC, 8)
    for f in execs:
        fx = FlowCx(P, f)
        sites = []
        for bi, tm in f.calls():
            cal = callee_name(tm)
            last = short_id(cal)
            if last in ("Planner::with_context", "RdfPlanner::with_tx_id", "QueryProcessor::with_tx_context", "Planner::new",
                        "RdfPlanner::new"):
                sites.append((bi, tm, last))
        has_ctx = False
        for bi, tm, last in sites:
            if last in ("Planner::with_context", "RdfPlanner::with_tx_id", "QueryProcessor::with_tx_context"):
                argtags = set()
                for a in tm["args"]:
                    argtags |= fx.tags(a)
                if "call:Session::get_transaction_context" in argtags:
                    has_ctx = True
                if last == "RdfPlanner::with_tx_id" and "cell:Session.current_tx" in argtags:
                    has_ctx = True  # the triple store has no epochs: the transaction id is the whole context
        # delegation to another execute* of the same session
        for bi, tm in f.calls():
            cal = callee_name(tm)
            if cal != f.id and any(cal == g.id for g in execs):
                has_ctx = True
        ctx.ob("R6", "%s#planner-context" % short_id(f.id), has_ctx,
               what="%s does not hand the session's (viewing epoch, tx id) from get_transaction_context to the planner: "
                    "the query runs outside the transaction's snapshot" % short_id(f.id), where=f.loc())
    for n, acc in (("get_node", "get_node_versioned"), ("get_edge", "get_edge_versioned")):
        f = P.fn("Session::" + n)
        fx = FlowCx(P, f)
        ok = False
        for bi, tm in f.calls():
            if callee_name(tm).endswith("LpgStore::" + acc):
                tg = fx.tags(tm["args"][2]) | fx.tags(tm["args"][3])
                ok = "call:Session::get_transaction_context" in tg
        ctx.ob("R6", "Session::%s#versioned" % n, ok,
               what="Session::%s does not read through LpgStore::%s with the context from get_transaction_context" % (n, acc), where=f.loc())
    # ---- R7: the session's point lookups / neighbour listings touch the store only through versioned accessors
    versioned_ok = {common.LPG + "::get_node_versioned", common.LPG + "::get_edge_versioned"}
    n7 = 0
    for f in common.session_fns(P, common.SESSION_DIRECT_READ, 10):
        for g in P.family(f):
            for bi, tm in g.calls():
                cal = callee_name(tm)
                if not cal.startswith(common.LPG + "::"):
                    continue
                n7 += 1
                acc = cal.split("::")[-1]
                ctx.ob("R7", "%s->%s" % (short_id(f.id), acc), cal in versioned_ok,
                       what="%s reads the store through LpgStore::%s, which takes no (epoch, transaction) context: the lookup "
                            "answers from outside the caller's snapshot (uncommitted, rolled-back or later-committed data)"
                            % (short_id(f.id), acc), where=g.loc(tm["line"]))
    ctx.floor("R7", n7, 5, "store calls in session point lookups")

    # ---- R8: operators that were given a context actually consume it in versioned store calls
    R8 = {
        "ScanOperator": {"get_node_versioned": ("viewing_epoch", "tx_id")},
        "ExpandOperator": {"get_edge_versioned": ("viewing_epoch", "tx_id"), "get_node_versioned": ("viewing_epoch", "tx_id")},
        "VariableLengthExpandOperator": {"get_edge_versioned": ("viewing_epoch", "tx_id"), "get_node_versioned": ("viewing_epoch", "tx_id")},
        "FactorizedExpandOperator": {"get_edge_versioned": ("viewing_epoch", "tx_id"), "get_node_versioned": ("viewing_epoch", "tx_id")},
        "FactorizedExpandChain": {"get_edge_versioned": ("viewing_epoch", "tx_id"), "get_node_versioned": ("viewing_epoch", "tx_id")},
        "CreateNodeOperator": {"create_node_versioned": ("viewing_epoch", "tx_id")},
        "CreateEdgeOperator": {"create_edge_versioned": ("viewing_epoch", "tx_id")},
        "DeleteNodeOperator": {"delete_node_at_epoch": ("viewing_epoch",)},
        "DeleteEdgeOperator": {"delete_edge_at_epoch": ("viewing_epoch",)},
    }
    for tn, need in sorted(R8.items()):
        got = {}
        for m in P.methods_of(tn):
            for g in P.family(m):
                gx = None
                for bi, tm in g.calls():
                    cal = callee_name(tm)
                    if cal.startswith(common.LPG + "::") and cal.split("::")[-1] in need:
                        gx = gx or FlowCx(P, g)
                        tg = set()
                        for a in tm["args"][1:]:
                            tg |= gx.tags(a)
                        fields = {x.split(".")[-1] for x in tg if x.startswith("cell:%s." % tn)}
                        got.setdefault(cal.split("::")[-1], set()).update(fields)
        for acc, flds in sorted(need.items()):
            ok = acc in got and all(fl in got[acc] for fl in flds)
            ctx.ob("R8", "%s->%s" % (tn, acc), ok,
                   what="%s does not read/write the store through LpgStore::%s with its own context (%s): it was handed the session's "
                        "snapshot but decides visibility without it" % (tn, acc, ", ".join(flds)), where=P.adt(tn)["file"])

    # ---- R8b: raw id enumerations reach an operator's buffer only where no context was given
    # The enumerators of the store (node_ids, nodes_by_label) answer at the store's own clock / from single-version
    # indexes. An operator that has a viewing epoch may keep their result only after the per-id versioned check; the
    # unfiltered result is acceptable only on the path where viewing_epoch is None (no transaction context at all).
    RAW = ("node_ids", "nodes_by_label", "all_node_ids")
    n8b = 0
    for tn in sorted(R8):
        if "get_node_versioned" not in R8[tn]:
            continue
        for m in P.methods_of(tn):
            for g in P.family(m):
                if g.kind == "closure":
                    continue
                gx = None
                D = g.defs()
                for bi, b in enumerate(g.blocks):
                    if b["cl"]:
                        continue
                    for pl, rv, ln in b["s"]:
                        if rv[0] == "dead" or not any(isinstance(p_, str) and p_.startswith("f:") and p_.endswith(":" + P.adt(tn)["id"]) for p_ in pl):
                            continue
                        gx = gx or FlowCx(P, g)
                        if not any(x.startswith("call:LpgStore::") and x.split("::")[-1] in RAW for x in gx._tags_rv_public(rv)):
                            continue
                        # split the value into its definitions (one per arm of the match / if that produced it)
                        work = [(bi, rv)]
                        if rv[0] == "use" and isinstance(rv[1], list) and len(rv[1]) > 1 and isinstance(rv[1][1], list) and len(rv[1][1]) == 1:
                            ds = D.get(rv[1][1][0], [])
                            if ds:
                                work = [(d_[0], d_[3]) for d_ in ds]
                        for k, (db, drv) in enumerate(work):
                            tg = gx._tags_rv_public(drv) if drv[0] != "call" else set().union(*[gx.tags(a) for a in drv[1]["args"]] or [set()]) | {"call:" + "::".join(callee_name(drv[1]).split("::")[-2:])}
                            raw = any(x.startswith("call:LpgStore::") and x.split("::")[-1] in RAW for x in tg)
                            if not raw:
                                continue
                            n8b += 1
                            checked = any(x == "call:LpgStore::get_node_versioned" for x in tg)
                            if not checked and any(x in ("call:Vec::new", "call:Vec::with_capacity") for x in tg):
                                # a collection filled in a loop: every push of a raw id happens where the versioned lookup of it succeeded
                                pushes = [(b2, t2) for b2, t2 in g.calls() if callee_name(t2).split("::")[-1] in ("push", "insert", "extend") and len(t2["args"]) > 1
                                          and any(x.startswith("call:LpgStore::") and x.split("::")[-1] in RAW for x in gx.tags(t2["args"][1]))]
                                def _pos_versioned(b2):
                                    for x in gx.facts_at(b2):
                                        pos = (x[0] == "variant" and x[2] == "Some") or (x[0] in ("call", "bool") and (x[2] is True or x[1] is True))
                                        flat = str(x)
                                        if pos and "call:LpgStore::get_node_versioned" in flat:
                                            return True
                                    return False
                                checked = bool(pushes) and all(_pos_versioned(b2) for b2, t2 in pushes)
                            noctx = any(x[0] == "variant" and x[1] == "core::option::Option" and x[2] == "None" and _has(x[3], "cell:%s.viewing_epoch" % tn)
                                        for x in gx.facts_at(db))
                            ctx.ob("R8b", "%s::%s#raw-ids[%d]" % (tn, g.id.split("::")[-1], k), checked or noctx,
                                   what="%s keeps the result of a raw id enumeration (node_ids / nodes_by_label answer at the store's own clock) "
                                        "on a path where it may hold a viewing epoch, without the per-id versioned check: a transaction's scan "
                                        "shows nodes committed after it began" % short_id(g.id), where=g.loc(ln))
    ctx.floor("R8b", n8b, 1, "raw id enumerations stored by context-aware operators")

    # get_transaction_context: inside a transaction the epoch is the transaction's start epoch
    rows = []
    gx = FlowCx(P, gtc)
    for bi, b in enumerate(gtc.blocks):
        if b["cl"]:
            continue
        for st in b["s"]:
            pl, rv, ln = st
            if pl == [0] and rv[0] == "agg" and rv[1] == "tuple":
                facts = gx.facts_at(bi)
                in_tx = any(x[0] == "variant" and x[1] == "core::option::Option" and x[2] == "Some" and _has(x[3], "cell:Session.current_tx") for x in facts)
                no_tx = any(x[0] == "variant" and x[1] == "core::option::Option" and x[2] == "None" and _has(x[3], "cell:Session.current_tx") for x in facts)
                rows.append((in_tx, no_tx, gx.tags(rv[4][0]), gx.tags(rv[4][1]), ln))
    ctx.floor("R6", len(rows), 2, "return rows of get_transaction_context")
    for in_tx, no_tx, et, tt, ln in rows:
        if in_tx:
            ok = "call:TransactionManager::start_epoch" in et and "agg:Option::Some" in tt
            ctx.ob("R6", "get_transaction_context#in-tx", ok,
                   what="inside a transaction the viewing epoch must be the transaction's start epoch "
                        "(TransactionManager::start_epoch) and the tx id must be passed on", where=gtc.loc(ln))
        elif no_tx:
            ok = "call:TransactionManager::current_epoch" in et and "call:TransactionManager::start_epoch" not in et
            ctx.ob("R6", "get_transaction_context#no-tx", ok,
                   what="outside a transaction the viewing epoch must be the manager's current (committed) epoch", where=gtc.loc(ln))
    # the manager's start epoch is the manager's clock at begin
    bw = P.fn("TransactionManager::begin_with_isolation")
    bx = FlowCx(P, bw)
    ok = False
    for bi, tm in bw.calls():
        if callee_name(tm).endswith("TxInfo::new"):
            ok = _has(bx.tags(tm["args"][0]), "cell:TransactionManager.current_epoch") and not _has(bx.tags(tm["args"][0]), "bin:Add") \
                 and not _has(bx.tags(tm["args"][0]), "bin:Sub")
    ctx.ob("R6", "begin#start-epoch", ok,
           what="a transaction's start epoch must be the manager's current epoch at begin (unmodified)", where=bw.loc())


def _r5(ctx, P):
    # EpochId::is_visible_at: created <= viewing
    f = P.fn("EpochId::is_visible_at")
    rows = return_table(P, f)
    good = False
    for v, facts, bi, ln in rows:
        if v[0] == "cmp":
            a1, b1 = "param:1" in v[2], "param:1" in v[3]
            if a1 and not b1 and "param:2" in v[3]:
                good = v[1] == "Le"
            elif b1 and not a1 and "param:2" in v[2]:
                good = v[1] == "Ge"
    ctx.ob("R5", "EpochId::is_visible_at", good and len(rows) == 1,
           what="EpochId::is_visible_at must be exactly `self <= viewing_epoch` (found %s)" % [(r[0][0], r[0][1]) for r in rows], where=f.loc())

    # VersionInfo::is_visible_at
    f = P.fn("VersionInfo::is_visible_at")
    rows = return_table(P, f)
    want = {"created-false": False, "deleted-some": False, "deleted-none": False}
    extra = []
    for v, facts, bi, ln in rows:
        created_false = any(x[0] == "call" and x[1] == "EpochId::is_visible_at" and x[2] is False and
                            "cell:VersionInfo.created_epoch" in x[3][0] and "param:2" in x[3][1] for x in facts)
        created_true = any(x[0] == "call" and x[1] == "EpochId::is_visible_at" and x[2] is True and
                           "cell:VersionInfo.created_epoch" in x[3][0] and "param:2" in x[3][1] for x in facts)
        some = any(x[0] == "variant" and x[2] == "Some" and "cell:VersionInfo.deleted_epoch" in x[3] for x in facts)
        none = any(x[0] == "variant" and x[2] == "None" and "cell:VersionInfo.deleted_epoch" in x[3] for x in facts)
        if v == ("const", "0") and created_false:
            want["created-false"] = True
        elif v[0] == "cmp" and created_true and some:
            a_del = "cell:VersionInfo.deleted_epoch" in v[2]
            b_del = "cell:VersionInfo.deleted_epoch" in v[3]
            op = v[1] if a_del else {"Lt": "Gt", "Gt": "Lt", "Le": "Ge", "Ge": "Le"}.get(v[1], v[1])
            other = v[3] if a_del else v[2]
            if (a_del != b_del) and "param:2" in other and op == "Gt":
                want["deleted-some"] = True
            else:
                extra.append((ln, "deleted-vs-view is `%s`" % op))
        elif v == ("const", "1") and created_true and none:
            want["deleted-none"] = True
        else:
            extra.append((ln, str(v[:2])))
    ctx.ob("R5", "VersionInfo::is_visible_at", all(want.values()) and not extra,
           what="VersionInfo::is_visible_at must be: false unless created<=view; deleted>view when deleted; true otherwise "
                "(missing rows %s, unexpected %s)" % ([k for k, v in want.items() if not v], extra), where=f.loc())

    # VersionInfo::is_visible_to
    f = P.fn("VersionInfo::is_visible_to")
    rows = return_table(P, f)
    want = {"own": False, "foreign": False}
    extra = []
    for v, facts, bi, ln in rows:
        own = any(x[0] == "cmp" and x[1] == "Eq" and (("cell:VersionInfo.created_by" in x[2] and "param:3" in x[3]) or
                                                     ("cell:VersionInfo.created_by" in x[3] and "param:3" in x[2])) for x in facts)
        foreign = any(x[0] == "cmp" and x[1] == "Ne" and (("cell:VersionInfo.created_by" in x[2] and "param:3" in x[3]) or
                                                         ("cell:VersionInfo.created_by" in x[3] and "param:3" in x[2])) for x in facts)
        if own and v[0] == "call" and v[1] == "Option::is_none" and "cell:VersionInfo.deleted_epoch" in v[2][0]:
            want["own"] = True
        elif foreign and v[0] == "call" and v[1] == "VersionInfo::is_visible_at" and "param:1" in v[2][0] and "param:2" in v[2][1]:
            want["foreign"] = True
        else:
            extra.append((ln, str(v[:2])))
    ctx.ob("R5", "VersionInfo::is_visible_to", all(want.values()) and not extra,
           what="VersionInfo::is_visible_to must be: own versions visible unless deleted; foreign versions by is_visible_at(viewing epoch) "
                "(missing rows %s, unexpected %s)" % ([k for k, v in want.items() if not v], extra), where=f.loc())

    # VersionChain::visible_to / visible_at select by the corresponding predicate
    for nm, pred in (("VersionChain::visible_to", "VersionInfo::is_visible_to"), ("VersionChain::visible_at", "VersionInfo::is_visible_at")):
        f = P.fn(nm)
        ok = False
        for g in P.family(f):
            for bi, tm in g.calls():
                if short_id(callee_name(tm)) == pred and g.blocks[bi]["t"]["dst"] == [0] and g.kind == "closure":
                    ok = True
        uses_find = any(callee_name(tm).endswith("Iterator::find") for bi, tm in f.calls())
        ctx.ob("R5", nm, ok and uses_find,
               what="%s must return the first (newest) version satisfying %s" % (nm, pred), where=f.loc())
    # the versioned accessors read through visible_to with their (epoch, tx) parameters
    for acc in ("get_node_versioned", "get_edge_versioned"):
        f = P.fn("LpgStore::" + acc)
        fx = FlowCx(P, f)
        ok = False
        for bi, tm in f.calls():
            if short_id(callee_name(tm)) in ("VersionChain::visible_to", "VersionIndex::visible_to"):
                ok = "param:3" in fx.tags(tm["args"][1]) and "param:4" in fx.tags(tm["args"][2])
        ctx.ob("R5", "LpgStore::%s" % acc, ok,
               what="LpgStore::%s must select the version with VersionChain::visible_to(epoch, tx_id) of its own parameters" % acc, where=f.loc())
    # ---- R9 the viewing epoch and the transaction id travel together: every call that hands a transaction context on
    # (Planner::with_context, QueryProcessor / operator ::with_tx_context) takes the epoch from the same context the
    # transaction id comes from. A transaction id paired with the current epoch reads at the latest epoch instead of the
    # transaction's snapshot (own writes still visible, so nothing looks wrong inside one session).
    def ctx_sources(tags):
        out = set()
        for t in tags:
            if t == "call:Session::get_transaction_context":
                out.add("session-context")
            elif t.startswith("cell:") and t.endswith(".tx_context"):
                out.add(t[5:])
            elif t.startswith("cell:") and t.endswith((".tx_id", ".viewing_epoch")):
                out.add(t[5:].rsplit(".", 1)[0] + ".{viewing_epoch,tx_id}")
        return out
    n9 = 0
    for f in sorted(P.fns.values(), key=lambda f: f.id):
        if f.krate not in ("grafeo_engine", "grafeo_core") or "::tests::" in f.id:
            continue
        fx = None
        for bi, t in f.calls():
            c = callee_name(t)
            if c.endswith("Planner::with_context") and len(t["args"]) == 4:
                ep, tx = t["args"][3], t["args"][2]
            elif c.endswith("::with_tx_context") and len(t["args"]) == 3:
                ep, tx = t["args"][1], t["args"][2]
            else:
                continue
            fx = fx or FlowCx(P, f)
            txs = ctx_sources(fx.tags(tx))
            if not txs:
                continue      # no transaction id is handed on here (constant None)
            n9 += 1
            eps = ctx_sources(fx.tags(ep))
            ctx.ob("R9", "%s->%s" % (short_id(f.id), short_id(c)), bool(txs & eps),
                   what="%s hands the transaction id of %s to %s but takes the viewing epoch from %s: inside a transaction the query "
                        "reads at another epoch than the transaction's snapshot" % (short_id(f.id), sorted(txs), short_id(c),
                        sorted(eps) or sorted(x for x in fx.tags(ep) if x.startswith("call:"))[:3]), where=f.loc(t["line"]))
    ctx.floor("R9", n9, 15, "calls that hand a transaction context on")
