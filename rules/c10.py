"""C10 - indexes, pruning, caching and strategy change speed, not answers (DESIGN §5 C10)."""
from .facts import short_id, must_pass, CheckerError
from .flow import FlowCx, callee_name, find_aggregates
from . import common

EXPLANATION = (
    "Decides structural necessary conditions: (R1) every LpgStore function that changes node property values also "
    "maintains the property indexes; (R2) the plan cache stores logical plans only, keyed by query text and the "
    "language of the translator that produced them, and physical planning with the session context happens on every "
    "execution (hit or miss); (R3) every successful return of Planner::plan_filter passes through a FilterOperator "
    "built from the filter's own predicate (residual filter on top of index / range access paths) or through the "
    "zone-map EmptyOperator short-cut; (R4) candidate lists taken from index / range / label lookups in the planner are "
    "re-checked against the session snapshot. Row equality across strategies in general is not decided.")
ASSUMPTIONS = ["compression / zone-map maintenance calls on PropertyStorage do not change property values"]

L = common.LPG
VALUE_OPS = {"set", "remove", "remove_all"}


def run(ctx):
    P = ctx.program()
    E = ctx.effects()
    # ---- R1 index maintenance
    n = 0
    for f in P.methods_of("LpgStore"):
        if f.impl_self != L or f.impl_trait:
            continue
        ops = set()
        for g in P.family(f):
            for a in E.own_acc(g):
                if a.cell == (L, "node_properties") and a.kind == "PASS":
                    for o in a.ops:
                        if o.startswith("grafeo_core::graph::lpg::property::PropertyStorage::") and o.split("::")[-1] in VALUE_OPS:
                            ops.add(o.split("::")[-1])
        if not ops:
            continue
        n += 1
        W, _ = E.closure_sets([f])
        R = P.reach([f])
        maint = any(x.endswith("LpgStore::update_property_index_on_set") or x.endswith("LpgStore::update_property_index_on_remove") for x in R) \
            or (L, "property_indexes") in W
        ctx.ob("R1", "LpgStore::%s" % f.id.split("::")[-1], maint,
               what="LpgStore::%s changes node property values (%s) without maintaining the property indexes: an indexed lookup and a "
                    "scan disagree afterwards" % (f.id.split("::")[-1], sorted(ops)), where=f.loc())
    ctx.floor("R1", n, 4, "LpgStore functions changing node property values")

    # ---- R2 cache
    qc = P.adt("cache::QueryCache")
    tys = [f[1] for v in qc["variants"] for f in v["fields"] if "LruCache" in f[1]]
    ctx.floor("R2", len(tys), 1, "LRU caches in QueryCache")
    ctx.ob("R2", "QueryCache#stores-logical-plans", all("LogicalPlan" in t and "PhysicalPlan" not in t and "Operator" not in t for t in tys),
           what="QueryCache stores something other than logical plans (%s): a cached physical plan would freeze one transaction's context" % tys,
           where=qc["file"])
    nex = 0
    for f in common.session_fns(P, common.SESSION_EXEC, 8):
        fx = FlowCx(P, f)
        keys = [(bi, t) for bi, t in f.calls() if short_id(callee_name(t)) == "CacheKey::new"]
        if not keys:
            continue
        nex += 1
        name = short_id(f.id)
        trans = [callee_name(t) for bi, t in f.calls() if callee_name(t).endswith("_translator::translate") or "_translator::translate" in callee_name(t)]
        for bi, t in keys:
            qt = fx.tags(t["args"][0])
            lt = fx.tags(t["args"][1])
            ctx.ob("R2", "%s#key-text" % name, "param:2" in qt,
                   what="%s builds its plan-cache key from something other than the query text" % name, where=f.loc(t["line"]))
            langs = sorted({x.split("::")[-1].lower() for x in lt if x.startswith(("const:QueryLanguage::", "agg:QueryLanguage::"))})
            ok = len(langs) == 1 and trans and all(langs[0] in tr.lower() for tr in trans)
            ctx.ob("R2", "%s#key-language" % name, bool(ok),
                   what="%s keys its cached plan with language %s but translates with %s: a query text valid in two languages can be "
                        "served the other language's plan" % (name, langs, [short_id(x) for x in trans]), where=f.loc(t["line"]))
        # physical planning on every execution
        plan_calls = {bi for bi, t in f.calls() if short_id(callee_name(t)) in ("Planner::plan", "RdfPlanner::plan")}
        exec_calls = {bi for bi, t in f.calls() if short_id(callee_name(t)) == "Executor::execute"}
        ok = bool(plan_calls) and bool(exec_calls) and must_pass(f, 0, plan_calls, exec_calls)
        ctx.ob("R2", "%s#plans-every-time" % name, ok,
               what="%s can reach execution without physical planning under the current transaction context (cache hit path)" % name, where=f.loc())
        # only the optimizer's output is cached
        for bi, t in f.calls():
            if short_id(callee_name(t)) == "QueryCache::put_optimized":
                pt = fx.tags(t["args"][2])
                ctx.ob("R2", "%s#caches-optimizer-output" % name, "call:Optimizer::optimize" in pt and "call:Planner::plan" not in pt,
                       what="%s caches a plan that is not the optimizer's output" % name, where=f.loc(t["line"]))
    ctx.floor("R2", nex, 2, "session execute functions using the plan cache")

    # ---- R3 residual filter
    pf = P.fn("Planner::plan_filter")
    px = FlowCx(P, pf)
    fo_new = P.fn("FilterOperator::new")
    fo_callers = P.callers_closure([fo_new.id])
    targets = set()
    for bi, t in pf.calls():
        c = callee_name(t)
        if c == fo_new.id:
            # predicate argument must come from the filter's own predicate
            tg = set()
            for a in t["args"]:
                tg |= px.tags(a)
            if "cell:FilterOp.predicate" in tg:
                targets.add(bi)
        elif any(x in fo_callers for x in P.call_targets(t)):
            tg = set()
            for a in t["args"]:
                tg |= px.tags(a)
            # a helper that is handed the predicate and builds the filter
            if "cell:FilterOp.predicate" in tg and short_id(c).split("::")[-1] not in (
                    "plan_operator", "try_plan_filter_with_property_index", "try_plan_filter_with_range_index", "check_zone_map_for_predicate"):
                targets.add(bi)
        elif short_id(c) == "EmptyOperator::new":
            targets.add(bi)
    ok_returns = {bi for (bi, si, rv, ln) in find_aggregates(pf, "core::result::Result", "Ok")}
    ctx.floor("R3", len(ok_returns), 2, "Ok returns of Planner::plan_filter")
    for rb in sorted(ok_returns):
        ok = must_pass(pf, 0, targets, {rb})
        k = sorted(ok_returns).index(rb)
        ctx.ob("R3", "Planner::plan_filter#return[%d]" % k, ok,
               what="Planner::plan_filter can return an access-path operator (index / range lookup) without a FilterOperator built from "
                    "the filter's predicate on top: conjuncts the access path did not recognise are dropped", where=pf.loc())

    # ---- R4 snapshot check on access-path candidates
    nl = P.adt("NodeListOperator")
    has_ctx = any(m.id.split("::")[-1] == "with_tx_context" for m in P.methods_of("NodeListOperator"))
    built = [f for f in P.fns.values() if f.krate == "grafeo_engine" and any(short_id(callee_name(t)) == "NodeListOperator::new" for bi, t in f.calls())]
    ctx.floor("R4", len(built), 1, "planner sites building NodeListOperator")
    ctx.ob("R4", "NodeListOperator#snapshot", has_ctx,
           what="node lists taken from index / range / label lookups are emitted by NodeListOperator without any transaction context: "
                "the access path returns candidates the session's snapshot must not see", where=nl["file"])
