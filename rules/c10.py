"""C10 - indexes, pruning, caching and strategy change speed, not answers (DESIGN §5 C10)."""
from .facts import short_id, must_pass, CheckerError
from .flow import FlowCx, callee_name, find_aggregates
from . import common

EXPLANATION = (
    "(R10) an operator that flattens the chunks it pulls from its child does so on every path from the pull to a normal return. "
    "Decides structural necessary conditions: (R1) every LpgStore function that changes node property values also "
    "maintains the property indexes; (R2) the plan cache stores logical plans only, keyed by query text and the "
    "language of the translator that produced them, and physical planning with the session context happens on every "
    "execution (hit or miss); (R3) every successful return of Planner::plan_filter passes through a FilterOperator "
    "built from the filter's own predicate (residual filter on top of index / range access paths) or through the "
    "zone-map EmptyOperator short-cut; (R4) candidate lists taken from index / range / label lookups in the planner are "
    "re-checked against the session snapshot. (R7) a zone-map predicate answers no-match only where the comparison with the bound produced a definite order. "
    "(R8) pruning verdicts combine three-valued: OR says no only if both sides do, AND only if one does; (R9) an operator that sets a selection on a received chunk refines the selection the chunk carries. "
    "Row equality across strategies in general is not decided.")
ASSUMPTIONS = ["compression / zone-map maintenance calls on PropertyStorage do not change property values"]

L = common.LPG
VALUE_OPS = {"set", "remove", "remove_all"}


def run(ctx):
    P = ctx.program()
    pulled_chunks_are_flattened(ctx, P, "R10")
    physical_reads_under_visible_counts(ctx, P, "R10i")
    E = ctx.effects()
    # ---- R1 index maintenance
    n = 0
    for f in P.methods_of("LpgStore"):
        if f.impl_self != L or f.impl_trait:
            continue
        ops = set()
        for g in P.family(f):
            for a in E.own_acc(g):
                if a.cell == (L, "node_properties") and a.kind == "PASS":
                    for o in a.ops:
                        if o.startswith("grafeo_core::graph::lpg::property::PropertyStorage::") and o.split("::")[-1] in VALUE_OPS:
                            ops.add(o.split("::")[-1])
        if not ops:
            continue
        n += 1
        W, _ = E.closure_sets([f])
        R = P.reach([f])
        maint = any(x.endswith("LpgStore::update_property_index_on_set") or x.endswith("LpgStore::update_property_index_on_remove") for x in R) \
            or (L, "property_indexes") in W
        ctx.ob("R1", "LpgStore::%s" % f.id.split("::")[-1], maint,
               what="LpgStore::%s changes node property values (%s) without maintaining the property indexes: an indexed lookup and a "
                    "scan disagree afterwards" % (f.id.split("::")[-1], sorted(ops)), where=f.loc())
    ctx.floor("R1", n, 4, "LpgStore functions changing node property values")

    common.index_move_order(ctx, P, "R1b")

    # ---- R2 cache
    qc = P.adt("cache::QueryCache")
    tys = [f[1] for v in qc["variants"] for f in v["fields"] if "LruCache" in f[1]]
    ctx.floor("R2", len(tys), 1, "LRU caches in QueryCache")
    ctx.ob("R2", "QueryCache#stores-logical-plans", all("LogicalPlan" in t and "PhysicalPlan" not in t and "Operator" not in t for t in tys),
           what="QueryCache stores something other than logical plans (%s): a cached physical plan would freeze one transaction's context" % tys,
           where=qc["file"])
    nex = 0
    for f in common.session_fns(P, common.SESSION_EXEC, 8):
        fx = FlowCx(P, f)
        keys = [(bi, t) for bi, t in f.calls() if short_id(callee_name(t)) == "CacheKey::new"]
        if not keys:
            continue
        nex += 1
        name = short_id(f.id)
        trans = [callee_name(t) for bi, t in f.calls() if callee_name(t).endswith("_translator::translate") or "_translator::translate" in callee_name(t)]
        for bi, t in keys:
            qt = fx.tags(t["args"][0])
            lt = fx.tags(t["args"][1])
            ctx.ob("R2", "%s#key-text" % name, "param:2" in qt,
                   what="%s builds its plan-cache key from something other than the query text" % name, where=f.loc(t["line"]))
            langs = sorted({x.split("::")[-1].lower() for x in lt if x.startswith(("const:QueryLanguage::", "agg:QueryLanguage::"))})
            ok = len(langs) == 1 and trans and all(langs[0] in tr.lower() for tr in trans)
            ctx.ob("R2", "%s#key-language" % name, bool(ok),
                   what="%s keys its cached plan with language %s but translates with %s: a query text valid in two languages can be "
                        "served the other language's plan" % (name, langs, [short_id(x) for x in trans]), where=f.loc(t["line"]))
        # physical planning on every execution
        plan_calls = {bi for bi, t in f.calls() if short_id(callee_name(t)) in ("Planner::plan", "RdfPlanner::plan")}
        exec_calls = {bi for bi, t in f.calls() if short_id(callee_name(t)) == "Executor::execute"}
        ok = bool(plan_calls) and bool(exec_calls) and must_pass(f, 0, plan_calls, exec_calls)
        ctx.ob("R2", "%s#plans-every-time" % name, ok,
               what="%s can reach execution without physical planning under the current transaction context (cache hit path)" % name, where=f.loc())
        # only the optimizer's output is cached
        for bi, t in f.calls():
            if short_id(callee_name(t)) == "QueryCache::put_optimized":
                pt = fx.tags(t["args"][2])
                ctx.ob("R2", "%s#caches-optimizer-output" % name, "call:Optimizer::optimize" in pt and "call:Planner::plan" not in pt,
                       what="%s caches a plan that is not the optimizer's output" % name, where=f.loc(t["line"]))
    ctx.floor("R2", nex, 2, "session execute functions using the plan cache")

    # ---- R3 residual filter
    pf = P.fn("Planner::plan_filter")
    px = FlowCx(P, pf)
    fo_new = P.fn("FilterOperator::new")
    fo_callers = P.callers_closure([fo_new.id])
    targets = set()
    for bi, t in pf.calls():
        c = callee_name(t)
        if c == fo_new.id:
            # predicate argument must come from the filter's own predicate
            tg = set()
            for a in t["args"]:
                tg |= px.tags(a)
            if "cell:FilterOp.predicate" in tg:
                targets.add(bi)
        elif any(x in fo_callers for x in P.call_targets(t)):
            tg = set()
            for a in t["args"]:
                tg |= px.tags(a)
            # a helper that is handed the predicate and builds the filter
            if "cell:FilterOp.predicate" in tg and short_id(c).split("::")[-1] not in (
                    "plan_operator", "try_plan_filter_with_property_index", "try_plan_filter_with_range_index", "check_zone_map_for_predicate"):
                targets.add(bi)
        elif short_id(c) == "EmptyOperator::new":
            targets.add(bi)
    ok_returns = {bi for (bi, si, rv, ln) in find_aggregates(pf, "core::result::Result", "Ok")}
    ctx.floor("R3", len(ok_returns), 2, "Ok returns of Planner::plan_filter")
    for rb in sorted(ok_returns):
        ok = must_pass(pf, 0, targets, {rb})
        k = sorted(ok_returns).index(rb)
        ctx.ob("R3", "Planner::plan_filter#return[%d]" % k, ok,
               what="Planner::plan_filter can return an access-path operator (index / range lookup) without a FilterOperator built from "
                    "the filter's predicate on top: conjuncts the access path did not recognise are dropped", where=pf.loc())

    # ---- R5 the range access path encodes each comparison operator as the bounds it means, and hands them on unchanged
    tr = P.fn("Planner::try_plan_filter_with_range_index")
    tx = FlowCx(P, tr)
    WANT = {"Lt": ("None", "Some", "0", "0"), "Le": ("None", "Some", "0", "1"), "Gt": ("Some", "None", "0", "0"), "Ge": ("Some", "None", "1", "0")}
    got = {}
    for bi, b in enumerate(tr.blocks):
        if b["cl"]:
            continue
        for st in b["s"]:
            rv = st[1]
            if rv[0] == "agg" and rv[1] == "tuple" and len(rv[4]) == 4:
                ops = [x[2] for x in tx.facts_at(bi) if x[0] == "variant" and x[1].endswith("BinaryOp")]
                if not ops:
                    continue
                row = []
                for o in rv[4]:
                    if o[0] == "k":
                        row.append(str(o[1]))
                    else:
                        tg = tx.tags(o)
                        row.append("Some" if "agg:Option::Some" in tg else ("None" if "agg:Option::None" in tg else "?"))
                got[ops[0]] = tuple(row)
    ctx.floor("R5", len(got), 4, "operator rows in try_plan_filter_with_range_index")
    for op, want in sorted(WANT.items()):
        ctx.ob("R5", "range-bounds:%s" % op, got.get(op) == want,
               what="the range access path turns `%s` into (min, max, min_inclusive, max_inclusive) = %s, expected %s: the index path "
                    "returns different rows than the scan" % (op, got.get(op), want), where=tr.loc())
    prf = P.fn("Planner::plan_range_filter")
    px2 = FlowCx(P, prf)
    for bi, t in prf.calls():
        if callee_name(t).endswith("LpgStore::find_nodes_in_range"):
            cf = P.fns[callee_name(t)]
            for i, a in enumerate(t["args"]):
                pn = cf.names().get(i + 1)
                if pn in ("min", "max", "min_inclusive", "max_inclusive"):
                    ctx.ob("R5", "range-plumbing:%s" % pn, ("cell:RangeBounds." + pn) in px2.tags(a),
                           what="plan_range_filter passes something other than bounds.%s as `%s` of find_nodes_in_range" % (pn, pn),
                           where=prf.loc(t["line"]))
    # the plan-cache key only normalises whitespace
    nq = P.fn("cache::normalize_query")
    allowed = ("split_whitespace", "collect", "join", "deref", "as_str", "into_iter", "as_ref")
    bad = [callee_name(t).split("::")[-1] for g in P.family(nq) for bi, t in g.calls() if callee_name(t).split("::")[-1] not in allowed]
    ctx.ob("R2", "normalize_query#whitespace-only", not bad,
           what="the plan-cache key normalisation does more than collapse whitespace (%s): two different query texts (e.g. differing in "
                "the case of a string literal) can share a cached plan" % bad, where=nq.loc())

    # ---- R6 the comparators behind pruning and access paths understand every operand-type pair the filter
    # evaluator understands: a pair the evaluator orders but a pruning comparator calls incomparable makes the range
    # path drop rows the scan returns (e.g. an integer property compared with a float literal)
    ev = P.fn("ExpressionPredicate::compare_values")
    rg = P.fn("lpg::store::compare_values_for_range")
    pe, pr = variant_pairs(P, ev), variant_pairs(P, rg)
    ctx.floor("R6", len(pe), 3, "operand-type pairs of the evaluator's comparator")
    for pair in sorted(pe):
        ctx.ob("R6", "range-comparator:%s/%s" % pair, pair in pr,
               what="the filter evaluator orders (%s, %s) values but the range access path's comparator treats the pair as "
                    "incomparable and rejects the row: a range predicate served by the range path returns fewer rows than the "
                    "same predicate evaluated by the filter" % pair, where=rg.loc())

    # ---- R4 snapshot check on access-path candidates
    nl = P.adt("NodeListOperator")
    has_ctx = any(m.id.split("::")[-1] == "with_tx_context" for m in P.methods_of("NodeListOperator"))
    built = [f for f in P.fns.values() if f.krate == "grafeo_engine" and any(short_id(callee_name(t)) == "NodeListOperator::new" for bi, t in f.calls())]
    ctx.floor("R4", len(built), 1, "planner sites building NodeListOperator")
    ctx.ob("R4", "NodeListOperator#snapshot", has_ctx,
           what="node lists taken from index / range / label lookups are emitted by NodeListOperator without any transaction context: "
                "the access path returns candidates the session's snapshot must not see", where=nl["file"])
    # ---- R7 zone-map predicates say 'no' only on a definite order (rules/c14.py zone_map_definite_no)
    from .c14 import zone_map_definite_no
    zone_map_definite_no(ctx, ctx.program(), "R7")
    # ---- R8 three-valued combination of pruning verdicts: check_zone_map_for_predicate answers Some(false) ("no row can
    # match": the filter becomes an EmptyOperator) for `a OR b` only when both sides are Some(false), and for `a AND b` only
    # when at least one side is. "false OR unknown" is unknown.
    zp = P.fn("Planner::check_zone_map_for_predicate")
    zx = FlowCx(P, zp)
    n8 = 0
    for (bi, si, rv, ln) in find_aggregates(zp, "core::option::Option", "Some"):
        if not (rv[4] and rv[4][0][0] == "k" and str(rv[4][0][1]) in ("0", "false")):
            continue
        ops = [x[2] for x in zx.facts_at(bi) if x[0] == "variant" and x[1].endswith("BinaryOp")]
        if not ops or ops[0] not in ("Or", "And"):
            continue
        n8 += 1
        def side_false(side):
            def pred(x):
                if x[0] == "bool":
                    return x[1] is False and any(t == "cell:Binary." + side for t in x[2])
                if x[0] == "cmp" and x[1] == "Eq":      # `result == Some(false)`
                    for a, b in ((x[2], x[3]), (x[3], x[2])):
                        if ("cell:Binary." + side) in a and any(t in ("const:Option::Some(0)", "const:Option::Some(false)") for t in b):
                            return True
                return False
            return pred
        l_ok = zx.every_path_has(bi, side_false("left"))
        r_ok = zx.every_path_has(bi, side_false("right"))
        either = zx.every_path_has(bi, lambda x: side_false("left")(x) or side_false("right")(x))
        ok = (l_ok and r_ok) if ops[0] == "Or" else either
        ctx.ob("R8", "check_zone_map_for_predicate#%s-no" % ops[0], ok,
               what="check_zone_map_for_predicate answers 'no row matches' for an %s although %s: a filter whose other side cannot be "
                    "classified by the zone map is replaced by an empty result" %
                    (ops[0].upper(), "not both sides were ruled out" if ops[0] == "Or" else "neither side was ruled out"), where=zp.loc(ln))
    ctx.floor("R8", n8, 2, "Some(false) verdicts of compound predicates")

    # ---- R9 a filter refines, it does not replace: an operator that puts a selection on a chunk it received from its child
    # computes it from the selection the chunk already carries. Overwriting it brings back the rows a filter below had
    # removed - and the same query is answered correctly when an index serves the lower condition, so the answer depends
    # on whether the index exists.
    n9 = 0
    for f in sorted(P.fns.values(), key=lambda f: f.id):
        if not f.id.startswith(("grafeo_core::execution::operators::", "<grafeo_core::execution::operators::")) or "::tests::" in f.id \
                or "::push::" in f.id:
            continue
        fx = None
        for bi, t in f.calls():
            if not callee_name(t).endswith("DataChunk::set_selection"):
                continue
            fx = fx or FlowCx(P, f)
            src = fx.tags(t["args"][0])
            if not any(x.startswith("call:") and x.endswith("::next") for x in src):
                continue          # a chunk the operator built itself
            n9 += 1
            sel = fx.tags(t["args"][1])
            refines = any(x in sel for x in ("call:DataChunk::selection", "call:DataChunk::selected_indices")) or \
                any(x.startswith("call:SelectionVector::") and x.split("::")[-1] in ("filter", "intersect") for x in sel)
            ctx.ob("R9", "%s#refines-selection" % short_id(f.id), refines,
                   what="%s sets a selection on the chunk it received without reading the selection the chunk already carries: "
                        "rows removed by an operator below come back" % short_id(f.id), where=f.loc(t["line"]))
    ctx.floor("R9", n9, 1, "operators that set a selection on a received chunk")


def variant_pairs(P, fn):
    """(variant of arg A, variant of arg B) pairs under which fn does real work (a call, comparison or cast)"""
    out = set()
    fx = FlowCx(P, fn)
    params = ["param:%d" % i for i in range(1, fn.argc + 1)]
    # the two Value parameters are the last two
    pa, pb = params[-2], params[-1]
    for bi in range(len(fn.blocks)):
        b = fn.blocks[bi]
        if b["cl"]:
            continue
        t = b["t"]
        has_work = t["k"] == "call" or any(st[1][0] in ("bin", "cast") for st in b["s"])
        if not has_work:
            continue
        facts = fx.facts_at(bi)
        a = [f[2] for f in facts if f[0] == "variant" and f[1].endswith("value::Value") and pa in f[3] and pb not in f[3]]
        c = [f[2] for f in facts if f[0] == "variant" and f[1].endswith("value::Value") and pb in f[3] and pa not in f[3]]
        if a and c:
            out.add((a[0], c[0]))
    return out


def pulled_chunks_are_flattened(ctx, P, rule):
    """A filter hands on chunks whose selection vector hides rows; the column data underneath is unchanged. The operators
    that read columns by physical position (expand, variable-length expand, the factorized chain) therefore flatten every
    chunk they pull from their child. That must hold on every path from a successful pull to a normal return - also on
    the path that collects several batches and merges them - or the operator reads the first k physical rows instead of the
    k selected ones whenever the start filter's result spans more than one batch."""
    from .facts import must_pass
    from .c12_k8 import error_blocks
    n = 0
    for f in sorted(P.fns.values(), key=lambda f: f.id):
        if "::tests::" in f.id or f.kind == "closure" or not f.id.startswith("grafeo_core::execution::operators::"):
            continue
        fl = {bi for bi, t in f.calls() if callee_name(t).endswith("DataChunk::flatten")}
        pulls = [(bi, t) for bi, t in f.calls() if (t.get("f") or "").endswith("operators::Operator::next")]
        if not fl or not pulls:
            continue
        fx = FlowCx(P, f)
        for bi, t in pulls:
            # blocks entered with a chunk in hand: the Some arm of the pull's result
            some = [b for b in range(len(f.blocks)) if not f.blocks[b]["cl"] and
                    any(x[0] == "variant" and x[1] == "core::option::Option" and x[2] == "Some" and "operators::Operator::next" in str(x[3]) or
                        (x[0] == "variant" and x[1] == "core::option::Option" and x[2] == "Some" and "call:Operator::next" in str(x[3]))
                        for x in fx.facts_at(b))]
            entries = [b for b in some if any(p not in some for p in f.pred()[b])]
            if not entries:
                continue
            n += 1
            goals = set(f.exits())
            errs = error_blocks(f)
            ok = all(must_pass(f, b, fl | errs, goals) for b in entries)
            ctx.ob(rule, "%s#flattens-what-it-pulls" % short_id(f.id), ok,
                   what="%s can use a chunk it pulled from its child without flattening it (a path from the successful pull to the return "
                        "avoids DataChunk::flatten): the selection vector a filter left on the chunk is ignored and rows are read by "
                        "physical position" % short_id(f.id), where=f.loc(t["line"]))
    ctx.floor(rule, n, 3, "operators that flatten the chunks they pull")


def physical_reads_under_visible_counts(ctx, P, rule):
    """Inventory (information only): functions of the execution layer that loop over 0..chunk.row_count() / len() - the
    number of *visible* rows - and read a column at that loop index - a *physical* position - without flattening the chunk
    in the same operator. On a chunk that carries a selection vector they read the wrong rows. The two that exist today
    (FactorizedExpandOperator::process_chunk, StatsPartitionCollector::collect) are public API of grafeo-core but are not
    constructed by any planner, so no query reaches them: latent, reported as information, never as a violation."""
    out = []
    for f in sorted(P.fns.values(), key=lambda f: f.id):
        if "::tests::" in f.id or not f.id.startswith(("grafeo_core::execution::", "<grafeo_core::execution::")):
            continue
        fx = None
        for bi, t in f.calls():
            c = callee_name(t)
            nm = c.split("::")[-1]
            if "vector::ValueVector::" in c and nm.startswith("get_") and len(t["args"]) >= 2:
                fx = fx or FlowCx(P, f)
                it = fx.tags(t["args"][1])
                vis = any(x in ("call:DataChunk::row_count", "call:DataChunk::len") for x in it)
                phys = any(x in ("call:DataChunk::total_row_count", "call:DataChunk::selected_indices", "call:SelectionVector::iter",
                                 "call:SelectionVector::get", "call:SelectionVector::as_slice") for x in it)
                if vis and not phys and "agg:Range::Range" in it:
                    owner = P.fns.get(f.parent) or f
                    flat = any(callee_name(t2).endswith("DataChunk::flatten") for g in P.family(owner) for b2, t2 in g.calls())
                    if not flat:
                        out.append((f, t["line"]))
    seen = set()
    for f, ln in out:
        if f.id in seen:
            continue
        seen.add(f.id)
        ctx.ob(rule, "%s#physical-read-under-visible-count" % short_id(f.id), False, info=True,
               what="latent: %s reads a column at the index of a loop over the visible row count without flattening the chunk; on a chunk "
                    "with a selection vector it reads other rows than the selected ones. No planner constructs this operator / "
                    "collector today, so no query reaches it (information only)" % short_id(f.id), where=f.loc(ln))
