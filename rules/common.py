"""shared vocabulary (DESIGN §4): entry points, state-cell classification, guard helpers"""
from .facts import CheckerError, LOCK_API, op_place, short_id

LPG = "grafeo_core::graph::lpg::store::LpgStore"
RDF = "grafeo_core::graph::rdf::store::RdfStore"
TM = "grafeo_engine::transaction::manager::TransactionManager"
TXINFO = "grafeo_engine::transaction::manager::TxInfo"
WAL = "grafeo_adapters::storage::wal::log::WalManager"

SESSION_EXEC = ["execute", "execute_with_params", "execute_cypher", "execute_gremlin", "execute_gremlin_with_params",
                "execute_graphql", "execute_graphql_with_params", "execute_sparql", "execute_sparql_with_params"]
SESSION_DIRECT_MUT = ["create_node", "create_node_with_props", "create_edge"]
SESSION_DIRECT_READ = ["get_node", "get_node_property", "get_edge", "get_neighbors_outgoing", "get_neighbors_incoming",
                       "get_neighbors_outgoing_by_type", "node_exists", "edge_exists", "get_degree", "get_nodes_batch"]

# LpgStore cell classification (DESIGN §4.2). Every field must be classified: an unknown field is a
# checker error (a new piece of shared state has to be classified before effect rules are believed).
LPG_CELLS = {
    "nodes": "versioned", "edges": "versioned",
    "node_versions": "versioned", "edge_versions": "versioned",
    # record payloads of the tiered configuration: reachable only through the version indexes above
    "epoch_store": "payload", "arena_allocator": "payload",
    "node_properties": "data", "edge_properties": "data", "label_index": "data", "node_labels": "data",
    "forward_adj": "data", "backward_adj": "data", "property_indexes": "index", "vector_indexes": "index",
    "label_to_id": "catalog", "id_to_label": "catalog", "edge_type_to_id": "catalog", "id_to_edge_type": "catalog",
    "current_epoch": "clock", "next_node_id": "allocator", "next_edge_id": "allocator",
    "statistics": "advisory", "needs_stats_recompute": "advisory", "config": "config",
}
RDF_CELLS = {"triples": "primary", "subject_index": "index", "predicate_index": "index", "object_index": "index",
             "tx_buffer": "buffer", "config": "config"}
TM_CELLS = {"next_tx_id": "allocator", "current_epoch": "clock", "transactions": "table", "committed_epochs": "table"}


def check_classification(P):
    for ty, table in ((LPG, LPG_CELLS), (RDF, RDF_CELLS), (TM, TM_CELLS)):
        a = P.adts.get(ty)
        if a is None:
            raise CheckerError("type anchor %s missing" % ty)
        for v in a["variants"]:
            for f in v["fields"]:
                if f[0] not in table:
                    raise CheckerError("field %s.%s is not classified (rules/common.py)" % (ty, f[0]))


def session_fns(P, names, required_min=1):
    out = []
    for n in names:
        f = P.fn("Session::" + n, required=False) if P.find("Session::" + n) else None
        if f is not None:
            out.append(f)
    if len(out) < required_min:
        raise CheckerError("session entry points %s: only %d resolved" % (names, len(out)))
    return out


def mutation_entries(P):
    """transactional mutation entry points at the session level"""
    return session_fns(P, SESSION_EXEC, 8) + session_fns(P, SESSION_DIRECT_MUT, 3)


def read_entries(P):
    return session_fns(P, SESSION_EXEC, 8) + session_fns(P, SESSION_DIRECT_READ, 10)


# ---------------------------------------------------------------------------------------------- guards

def guard_local(fn, acq_block):
    """guard local produced by the lock call that terminates the block where the cell reference is
    taken (the reference and the call are normally in the same block)"""
    t = fn.blocks[acq_block]["t"]
    if t["k"] == "call" and (t["f"] in LOCK_API):
        return t["dst"][0]
    # the reference was taken in an earlier block: follow to the next lock call
    seen = set()
    st = [acq_block]
    while st:
        b = st.pop()
        if b in seen:
            continue
        seen.add(b)
        t = fn.blocks[b]["t"]
        if t["k"] == "call" and t["f"] in LOCK_API:
            return t["dst"][0]
        st.extend(fn.succ()[b])
    raise CheckerError("no lock call found after block %d in %s" % (acq_block, fn.id))


def guard_kills(fn, guard):
    """blocks (normal control flow) in which the guard is released: Drop terminators on the guard local
    or on a local it was moved into, and calls that take it by value (mem::drop, unlock...)"""
    aliases = {guard}
    changed = True
    while changed:
        changed = False
        for bi, b in enumerate(fn.blocks):
            if b["cl"]:
                continue
            for st in b["s"]:
                pl, rv, ln = st
                if rv[0] == "use" and rv[1][0] == "m" and len(rv[1][1]) == 1 and rv[1][1][0] in aliases:
                    if pl[0] not in aliases and len(pl) == 1:
                        aliases.add(pl[0])
                        changed = True
    kills = []
    for bi, b in enumerate(fn.blocks):
        if b["cl"]:
            continue
        t = b["t"]
        if t["k"] == "drop" and len(t["p"]) == 1 and t["p"][0] in aliases:
            kills.append(bi)
        elif t["k"] == "call":
            for a in t["args"]:
                if a[0] == "m" and len(a[1]) == 1 and a[1][0] in aliases:
                    kills.append(bi)
    return kills


def lock_acquisitions(fn):
    """[(block, term, mode, cell or None)] for every lock call in fn"""
    from .facts import Trace, place_fields
    tr = Trace(fn)
    out = []
    for bi, t in fn.calls():
        if t["f"] in LOCK_API:
            mode, kind = LOCK_API[t["f"]]
            if kind == "nolock":
                continue
            cell = None
            for r in tr.origin(t["args"][0]):
                if r["kind"] == "field":
                    name, owner = r["fields"][-1]
                    cell = (owner, name)
            out.append((bi, t, mode, cell))
    return out


def no_child_operator(P):
    """edge filter: do not follow calls into (other) operators' `next`/`reset` - gives an operator's OWN effects"""
    ops = set()
    for ti, impls in P.trait_impls.items():
        if ti.endswith("::Operator::next") or ti.endswith("::Operator::reset") or ti.endswith("::PushOperator::push") \
                or ti.endswith("::PushOperator::finalize"):
            ops.update(impls)

    def filt(x, y):
        return y not in ops
    return filt


MUTATION_OPERATORS = ["CreateNodeOperator", "CreateEdgeOperator", "DeleteNodeOperator", "DeleteEdgeOperator",
                      "SetPropertyOperator", "AddLabelOperator", "RemoveLabelOperator", "MergeOperator"]


def mutation_operator_nexts(P):
    return [P.method(o, "Operator", "next") for o in MUTATION_OPERATORS]


def has_txid_cell(P, tags):
    """does a tag set mention a struct field whose declared type carries a TxId (e.g. `tx_id: Option<TxId>`)"""
    for t in tags:
        if not t.startswith("cell:"):
            continue
        owner, _, field = t[5:].rpartition(".")
        for aid, a in P.adts.items():
            if aid.split("::")[-1] == owner:
                for v in a["variants"]:
                    for f in v["fields"]:
                        if f[0] == field and "TxId" in f[1]:
                            return True
    return False


def index_move_order(ctx, P, rule):
    """when a function takes an entity out of one property-index bucket and puts it into another, the removal comes
    first (if both buckets coincide - a value re-written unchanged - the opposite order loses the entity)"""
    from .flow import FlowCx, callee_name
    # ---- R3 re-indexing order: when a function takes an entity out of one index bucket and puts it into another,
    # the removal comes first. If old and new key coincide (a property re-written with the same value), the opposite
    # order inserts the entity and then removes it again: the index loses an entity the scan still finds.
    n3 = 0
    L = LPG
    for f in P.methods_of("LpgStore"):
        if f.impl_self != L or f.impl_trait:
            continue
        fx = None
        ins, rem = [], []
        for g in [f]:
            for bi, t in g.calls():
                c = callee_name(t)
                last = c.split("::")[-1]
                if not t["args"]:
                    continue
                if c.startswith("dashmap::") and last in ("entry", "insert"):
                    fx = fx or FlowCx(P, g)
                    if "cell:LpgStore.property_indexes" in fx.tags(t["args"][0]):
                        ins.append(bi)
                elif (c.startswith("dashmap::") and last in ("remove", "remove_if")) or \
                        (("HashSet" in c or "hashbrown::set" in c) and last == "remove"):
                    fx = fx or FlowCx(P, g)
                    if "cell:LpgStore.property_indexes" in fx.tags(t["args"][0]):
                        rem.append(bi)
        if ins and rem:
            n3 += 1
            bad = [(i, r) for i in ins for r in rem if r in f.reachable_blocks(i) and r != i]
            ctx.ob(rule, "LpgStore::%s#remove-before-insert" % f.id.split("::")[-1], not bad,
                   what="LpgStore::%s inserts the node into its new property-index bucket and removes it from the old one "
                        "afterwards: when both are the same bucket (value re-written unchanged) the node disappears from the index "
                        "while a scan still finds it" % f.id.split("::")[-1], where=f.loc())
    ctx.floor(rule, n3, 1, "functions that move an entity between property-index buckets")



def versioned_cells(P):
    """names of the version-table cells of LpgStore in the analysed configuration"""
    names = [f[0] for v in P.adts[LPG]["variants"] for f in v["fields"]]
    if "node_versions" in names:
        return {"nodes": "node_versions", "edges": "edge_versions"}
    return {"nodes": "nodes", "edges": "edges"}
