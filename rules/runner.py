"""check runner: evaluates one property's rules over the current tree, matches violations against
known_findings.jsonl, prints KNOWN-FINDING / VIOLATION lines, writes reports and evidence."""
import importlib, json, os, sys, time, traceback

from . import extract
from .facts import Program, CheckerError, short_id
from .cells import Effects

VERIF = extract.VERIF
CLAIMED = ["C01", "C02", "C03", "C04", "C05", "C06", "C07", "C09", "C10", "C12", "C13", "C14", "C15", "C16",
           "C17", "C20"]


class Ctx:
    def __init__(self, prop, tier, facts_override=None):
        self.prop = prop
        self.tier = tier
        self.obs = []
        self.floors = []
        self.notes = []
        self._programs = {}
        self._effects = {}
        self.facts_override = facts_override
        self.analysed = {}

    # ---- programs ----
    def program(self, config="main"):
        if config not in self._programs:
            d = self.facts_override.get(config) if self.facts_override else None
            if d is None:
                d = extract.facts_dir(config)
            P = load_program(d)
            self._programs[config] = P
            self.analysed[config] = {"crates": P.crates, "functions": len(P.fns), "adts": len(P.adts),
                                     "impls": len(P.impls), "facts_dir": os.path.basename(d)}
        return self._programs[config]

    def effects(self, config="main"):
        if config not in self._effects:
            self._effects[config] = Effects(self.program(config))
        return self._effects[config]

    # ---- obligations ----
    def ob(self, rule, instance, ok, what="", where="", detail=None, key=None, info=False):
        """record one evaluated rule instance. key must be line-number free."""
        k = key or "%s-%s:%s" % (self.prop, rule, instance)
        self.obs.append({"rule": rule, "instance": instance, "status": "ok" if ok else ("info" if info else "violation"),
                         "key": k, "what": what, "where": where, "detail": detail})
        return ok

    def floor(self, rule, found, expected, what):
        """fail closed: a rule that matches fewer sites than were confirmed by hand is a broken checker"""
        self.floors.append({"rule": rule, "found": found, "floor": expected, "what": what})
        if found < expected:
            raise CheckerError("%s-%s: floor not met for %s: found %d < %d" % (self.prop, rule, what, found, expected))

    def note(self, s):
        self.notes.append(s)


def load_program(d):
    """Program for a facts directory, cached as a pickle next to the JSON files (same content, faster to load)"""
    import pickle
    pk = os.path.join(d, "program.pkl")
    if os.path.exists(pk):
        try:
            with open(pk, "rb") as fh:
                return pickle.load(fh)
        except Exception:
            pass
    P = Program(d)
    try:
        tmp = pk + ".tmp%d" % os.getpid()
        with open(tmp, "wb") as fh:
            pickle.dump(P, fh, protocol=pickle.HIGHEST_PROTOCOL)
        os.replace(tmp, pk)
    except Exception:
        pass
    return P


def load_known():
    out = {}
    p = os.path.join(VERIF, "known_findings.jsonl")
    if os.path.exists(p):
        for ln in open(p):
            ln = ln.strip()
            if ln and not ln.startswith("#"):
                d = json.loads(ln)
                out[d["key"]] = d
    return out


def run_check(prop, tier="quick", facts_override=None, write_evidence=True, quiet=False):
    """returns (exit_code, ctx, new_violations)"""
    t0 = time.time()
    seed = int(os.environ.get("VERIF_SEED", "0") or 0)
    ctx = Ctx(prop, tier, facts_override)
    mod = importlib.import_module("rules.%s" % prop.lower())
    checker_error = None
    try:
        mod.run(ctx)
    except CheckerError as e:
        # a lost anchor stops the rule evaluation; violations recorded before it are still real and are reported below
        checker_error = str(e)
        print("CHECKER-ERROR property=%s %s" % (prop, e))
        if not any(o["status"] == "violation" for o in ctx.obs):
            return 2, ctx, []
    except Exception:
        traceback.print_exc()
        print("CHECKER-ERROR property=%s internal error in rule evaluation" % prop)
        return 2, ctx, []
    extra = {}
    if tier == "thorough" and facts_override is None and checker_error is None:
        try:
            extra = thorough_extras(prop, ctx)
        except CheckerError as e:
            print("CHECKER-ERROR property=%s (thorough tier) %s" % (prop, e))
            return 2, ctx, []
    known = load_known()
    viol = [o for o in ctx.obs if o["status"] == "violation"]
    new, kn = [], []
    seen_keys = set()
    for o in viol:
        if o["key"] in seen_keys:
            continue
        seen_keys.add(o["key"])
        if o["key"] in known and known[o["key"]]["property"] == prop:
            kn.append(o)
        else:
            new.append(o)
    out = []
    for o in kn:
        out.append("KNOWN-FINDING: property=%s %s [%s]" % (prop, known[o["key"]].get("what") or o["what"], o["key"]))
    rdir = os.path.join(VERIF, "reports", prop)
    if new:
        os.makedirs(rdir, exist_ok=True)
    for o in new:
        fnm = "".join(c if c.isalnum() or c in "-_." else "_" for c in o["key"])[:150] + ".json"
        rp = os.path.join(rdir, fnm)
        with open(rp, "w") as fh:
            json.dump({"property": prop, "tier": tier, **o}, fh, indent=1)
        out.append("VIOLATION property=%s replay=%s" % (prop, rp))
        out.append("  rule %s-%s instance %s: %s" % (prop, o["rule"], o["instance"], o["what"]))
        if o["where"]:
            out.append("  at %s" % o["where"])
    if not quiet:
        for ln in out:
            print(ln)
    resolved = [k for k, d in known.items() if d["property"] == prop and k not in seen_keys]
    if write_evidence and checker_error is None:
        write_ev(prop, tier, seed, ctx, mod, new, kn, resolved, time.time() - t0, extra)
    for r in extra.get("selftest", []):
        if not quiet and r["status"] != "detected":
            print("SELFTEST-%s property=%s mutant=%s (checker sensitivity, not a property verdict)" % (r["status"].upper(), prop, r["mutant"]))
    if not quiet:
        n_ok = sum(1 for o in ctx.obs if o["status"] == "ok")
        print("%s %s: %d obligations, %d ok, %d known findings, %d new violations, %.1fs"
              % (prop, tier, len(ctx.obs), n_ok, len(kn), len(new), time.time() - t0))
    if checker_error is not None:
        return (1 if new else 2), ctx, new
    return (1 if new else 0), ctx, new


TIERED_OK = ["C01", "C02", "C03", "C04", "C05", "C07", "C10", "C13", "C14", "C20"]


def thorough_extras(prop, ctx):
    """thorough tier: (a) every mutant / seeded change of this property must be detected (run on scratch copies of
    /repo, never on /repo); (b) the rules are evaluated on the tiered-storage configuration as well where they are
    configuration-independent. (b) adds obligations (prefixed `tiered:`) to ctx; (a) is reported in the evidence."""
    from . import selftest
    out = {"selftest": [], "configs": ["main"]}
    out["selftest"] = selftest.selftest([prop], verbose=False) + selftest.seeded_test([prop])
    if prop in TIERED_OK:
        d = extract.facts_dir("tiered")
        sub = Ctx(prop, "thorough", {"main": d})
        mod = importlib.import_module("rules.%s" % prop.lower())
        mod.run(sub)
        for o in sub.obs:
            o = dict(o)
            o["key"] = o["key"] if o["status"] != "violation" else o["key"]
            o["instance"] = "tiered:" + o["instance"]
            o["rule"] = o["rule"]
            if o["status"] == "violation":
                # the same defect seen in the second configuration keeps its key (known findings match); anything else is new
                pass
            ctx.obs.append(o)
        ctx.analysed["tiered"] = sub.analysed.get("main")
        out["configs"].append("tiered")
    return out


def write_ev(prop, tier, seed, ctx, mod, new, kn, resolved, wall, extra=None):
    obs = ctx.obs
    rules = {}
    for o in obs:
        r = rules.setdefault(o["rule"], {"instances": 0, "ok": 0, "violations": 0, "info": 0})
        r["instances"] += 1
        r[{"ok": "ok", "violation": "violations", "info": "info"}[o["status"]]] += 1
    distinct = len({o["key"] for o in obs})
    samples = []
    per_rule_seen = {}
    for o in obs:
        c = per_rule_seen.get(o["rule"], 0)
        if c < 2:
            per_rule_seen[o["rule"]] = c + 1
            samples.append({"rule": o["rule"], "instance": o["instance"], "status": o["status"], "where": o["where"],
                            ("finding" if o["status"] != "ok" else "a_violation_would_mean"): o["what"]})
    ev = {
        "property_id": prop,
        "tier": tier,
        "seed": seed,
        "level": "other",
        "coverage": {
            "explanation": getattr(mod, "EXPLANATION", ""),
            "obligations": len(obs),
            "discharged": sum(1 for o in obs if o["status"] == "ok"),
            "evaluations": max(len(obs), 1),
            "distinct_nontrivial": distinct,
            "rule": "one obligation per rule instance found in the MIR of /repo's current tree (instances are "
                    "enumerated from compiler facts: call sites, aggregates, state-cell accesses, CFG blocks); "
                    "distinct = distinct line-free instance keys; an instance is non-trivial because it only "
                    "exists when the rule's premise matched a concrete site",
            "samples": samples[:24],
            "rules": rules,
            "floors": ctx.floors,
            "analysed": ctx.analysed,
            "known_findings_printed": [o["key"] for o in kn],
            "known_findings_resolved": resolved,
            "new_violations": [o["key"] for o in new],
            "notes": ctx.notes,
            "selftest": (extra or {}).get("selftest", []),
            "configs": (extra or {}).get("configs", ["main"]),
            "exhaustive": True,
            "checker_cmd": "./verif check %s --tier %s" % (prop, tier),
            "trusted_base": ["rustc type checking, MIR construction and callee resolution",
                             "the API tables in rules/facts.py, rules/cells.py",
                             "the rule-instance tables in rules/%s.py" % prop.lower()],
        },
        "assumptions": getattr(mod, "ASSUMPTIONS", []),
        "wall_s": round(wall, 2),
        "violations": len(new),
    }
    os.makedirs(os.path.join(VERIF, "evidence"), exist_ok=True)
    p = os.path.join(VERIF, "evidence", "%s.json" % prop)
    with open(p + ".tmp", "w") as fh:
        json.dump(ev, fh, indent=1)
    os.replace(p + ".tmp", p)
