"""verif selftest: test the checker both ways (DESIGN §3.6).

Each /verif/mutants/<PROP>/<name>.patch is a small source edit that breaks one rule instance while still
compiling; <name>.json says which rule must fire. The patch is applied to a scratch COPY of /repo
(outside /repo and /verif), facts are extracted there, the property's rules run on those facts, and the
scratch copy is removed. Nothing is ever written to /repo."""
import json, os, shutil, subprocess, sys, tempfile, time

from . import extract
from .facts import CheckerError
from .runner import run_check, VERIF


def scratch_copy():
    base = os.environ.get("VERIF_SCRATCH", "/var/tmp")
    d = tempfile.mkdtemp(prefix="verif-scratch-", dir=base)
    subprocess.check_call(["rsync", "-a", "--exclude", "/target", "--exclude", ".git", extract.REPO + "/", d + "/"])
    return d


def apply_patch(d, patch):
    r = subprocess.run(["git", "apply", "--whitespace=nowarn", os.path.abspath(patch)], cwd=d, stdout=subprocess.PIPE,
                       stderr=subprocess.STDOUT, text=True)
    if r.returncode != 0:
        r2 = subprocess.run(["patch", "-p1", "-i", os.path.abspath(patch)], cwd=d, stdout=subprocess.PIPE, stderr=subprocess.STDOUT, text=True)
        if r2.returncode != 0:
            return False, r.stdout + r2.stdout
    return True, ""


class ScratchFacts(dict):
    """facts of a scratch copy: configurations other than the first are extracted from the same copy on demand"""
    def __init__(self, repo, init):
        super().__init__(init)
        self.repo = repo

    def get(self, config, default=None):
        if config not in self:
            self[config] = extract.facts_dir(config, repo=self.repo, quiet=True)
        return self[config]


def run_mutant(patch, props, config="main", keep=False):
    """returns dict prop -> (rc, [new violation dicts]) or raises CheckerError"""
    d = scratch_copy()
    try:
        ok, msg = apply_patch(d, patch)
        if not ok:
            return {"_skipped": "patch does not apply: " + msg[-300:]}
        facts = extract.facts_dir(config, repo=d, quiet=True)
        out = {}
        for p in props:
            rc, ctx, new = run_check(p, "quick", facts_override=ScratchFacts(d, {config: facts}), write_evidence=False, quiet=True)
            out[p] = (rc, new)
        return out
    finally:
        if not keep:
            shutil.rmtree(d, ignore_errors=True)


def list_mutants(props=None):
    base = os.path.join(VERIF, "mutants")
    out = []
    if not os.path.isdir(base):
        return out
    for p in sorted(os.listdir(base)):
        if props and p not in props:
            continue
        for f in sorted(os.listdir(os.path.join(base, p))):
            if f.endswith(".patch"):
                meta = {}
                mp = os.path.join(base, p, f[:-6] + ".json")
                if os.path.exists(mp):
                    meta = json.load(open(mp))
                out.append((p, os.path.join(base, p, f), meta))
    return out


def selftest(props=None, verbose=True):
    """returns list of result dicts"""
    res = []
    for prop, patch, meta in list_mutants(props):
        t0 = time.time()
        try:
            r = run_mutant(patch, [prop])
        except CheckerError as e:
            res.append({"property": prop, "mutant": os.path.basename(patch), "status": "checker-error", "detail": str(e)[-400:]})
            continue
        if "_skipped" in r:
            res.append({"property": prop, "mutant": os.path.basename(patch), "status": "skipped", "detail": r["_skipped"]})
            continue
        rc, new = r[prop]
        exp = meta.get("expect_rule")
        hit = [o for o in new if (exp is None or o["rule"] == exp or o["rule"].startswith(exp))]
        st = "detected" if hit else ("missed" if rc != 2 else "checker-error")
        res.append({"property": prop, "mutant": os.path.basename(patch), "status": st, "expect_rule": exp,
                    "fired": sorted({o["key"] for o in new})[:6], "wall_s": round(time.time() - t0, 1)})
        if verbose:
            print("[selftest] %s %s: %s %s" % (prop, os.path.basename(patch), st, sorted({o["rule"] for o in new})))
    return res


def seeded_test(props=None):
    """changes written by independent sub-agents (/verif/seeded/<id>/patch.diff + meta.json)"""
    base = os.path.join(VERIF, "seeded")
    res = []
    if not os.path.isdir(base):
        return res
    for d in sorted(os.listdir(base)):
        mp = os.path.join(base, d, "meta.json")
        pp = os.path.join(base, d, "patch.diff")
        if not (os.path.exists(mp) and os.path.exists(pp)):
            continue
        meta = json.load(open(mp))
        prop = meta.get("property")
        if props and prop not in props:
            continue
        t0 = time.time()
        try:
            r = run_mutant(pp, [prop])
        except CheckerError as e:
            res.append({"property": prop, "mutant": "seeded/" + d, "status": "checker-error", "detail": str(e)[-300:]})
            continue
        if "_skipped" in r:
            res.append({"property": prop, "mutant": "seeded/" + d, "status": "skipped", "detail": r["_skipped"]})
            continue
        rc, new = r[prop]
        res.append({"property": prop, "mutant": "seeded/" + d, "status": "detected" if new else "missed",
                    "fired": sorted({o["key"] for o in new})[:6], "wall_s": round(time.time() - t0, 1)})
    return res


def benign_test(props=None):
    """behaviour-preserving rewrites (/verif/benign/*.patch): every listed check must stay quiet"""
    base = os.path.join(VERIF, "benign")
    res = []
    if not os.path.isdir(base):
        return res
    for f in sorted(os.listdir(base)):
        if not f.endswith(".patch"):
            continue
        meta = json.load(open(os.path.join(base, f[:-6] + ".json")))
        plist = [p for p in meta["properties"] if not props or p in props]
        if not plist:
            continue
        t0 = time.time()
        try:
            r = run_mutant(os.path.join(base, f), plist)
        except CheckerError as e:
            res.append({"property": ",".join(plist), "mutant": "benign/" + f, "status": "checker-error", "detail": str(e)[-300:]})
            continue
        if "_skipped" in r:
            res.append({"property": ",".join(plist), "mutant": "benign/" + f, "status": "skipped", "detail": r["_skipped"]})
            continue
        noisy = {p: sorted({o["key"] for o in r[p][1]})[:4] for p in plist if r[p][0] != 0}
        res.append({"property": ",".join(plist), "mutant": "benign/" + f, "status": "quiet" if not noisy else "false-alarm",
                    "fired": noisy, "wall_s": round(time.time() - t0, 1)})
    return res


def main(args):
    props = [a for a in args if a.startswith("C")] or None
    res = selftest(props) + seeded_test(props)
    ben = benign_test(props)
    for r in ben:
        print("[selftest] %s %s: %s %s" % (r["property"], r["mutant"], r["status"], r.get("fired", "")))
    for r in res:
        if r["mutant"].startswith("seeded/"):
            print("[selftest] %s %s: %s %s" % (r["property"], r["mutant"], r["status"], r.get("fired", "")))
    bad = [r for r in res if r["status"] in ("missed", "checker-error")] + [r for r in ben if r["status"] in ("false-alarm", "checker-error")]
    print(json.dumps({"mutants": len(res), "detected": sum(1 for r in res if r["status"] == "detected"),
                      "missed": [r["mutant"] for r in res if r["status"] == "missed"],
                      "skipped": [r["mutant"] for r in res if r["status"] == "skipped"],
                      "errors": [r["mutant"] for r in res if r["status"] == "checker-error"]}, indent=1))
    return 1 if bad else 0
