"""C07 - snapshot export/import, save and in-memory copy preserve the graph (DESIGN §5 C07)."""
from .facts import short_id, CheckerError
from .flow import FlowCx, find_calls, callee_name, find_aggregates
from . import common
from .panics import own_panic_sites

EXPLANATION = (
    "(R7) the id-preserving edge constructor every copy path uses registers each edge in the forward and the backward adjacency, with mirrored endpoints and under the same conditions. "
    "Decides structural necessary conditions of graph-preserving copies on the MIR of export_snapshot, "
    "import_snapshot, save and to_memory: (R1) every field of the snapshot / log records is fed from the same-named "
    "field of the source entity and every store constructor argument from the same-named field of the snapshot/source "
    "entity (no swapped endpoints, no dropped labels/properties); (R2) all copy paths enumerate with all_nodes/all_edges "
    "and rebuild with the id-preserving constructors; (R3) the clock that the enumerators read has a writer on the "
    "commit path (otherwise committed entities are not enumerated); (R4) import returns its errors before the first "
    "store mutation and contains no explicit panic. (R5) the derived serde bodies of snapshot and log records write and read every field and variant unconditionally; (R6) the enumerators the copy paths use take their ids from the primary version table. "
    "Equality of query answers is not decided.")
ASSUMPTIONS = ["field-to-field flow is established by provenance tags (cell:Node.id -> SnapshotNode.id -> create_node_with_id(id))"]

DB = "grafeo_engine::database::GrafeoDB"
SRC = {"id": ("Node.id", "Edge.id", "SnapshotNode.id", "SnapshotEdge.id"),
       "src": ("Edge.src", "SnapshotEdge.src"), "dst": ("Edge.dst", "SnapshotEdge.dst"),
       "edge_type": ("Edge.edge_type", "SnapshotEdge.edge_type"),
       "labels": ("Node.labels", "SnapshotNode.labels"),
       "properties": ("Node.properties", "Edge.properties", "SnapshotNode.properties", "SnapshotEdge.properties"),
       "key": ("Node.properties", "Edge.properties", "SnapshotNode.properties", "SnapshotEdge.properties"),
       "value": ("Node.properties", "Edge.properties", "SnapshotNode.properties", "SnapshotEdge.properties")}
NODE_ONLY = {"create_node_with_id", "set_node_property"}
EDGE_ONLY = {"create_edge_with_id", "set_edge_property"}


def _kind_ok(tags, want_edge):
    e = any(t.startswith("cell:Edge.") or t.startswith("cell:SnapshotEdge.") for t in tags)
    n = any(t.startswith("cell:Node.") or t.startswith("cell:SnapshotNode.") for t in tags)
    return e if want_edge else n


def run(ctx):
    P = ctx.program()
    # every copy path (import_snapshot, save, to_memory, WAL replay) builds its edges with create_edge_with_id: the copy has
    # the source's incoming lists only if that constructor registers every edge in both directions under the same conditions
    from .c14 import adjacency_mirrored
    adjacency_mirrored(ctx, P, "R7", ("create_edge_with_id",), floor=1)
    E = ctx.effects()
    paths = {n: P.fn("GrafeoDB::" + n) for n in ("export_snapshot", "import_snapshot", "save", "to_memory")}
    n1 = 0
    for pname, root in paths.items():
        for g in P.family(root):
            gx = FlowCx(P, g)
            # aggregates: snapshot structs and WAL records
            for adt in ("SnapshotNode", "SnapshotEdge", "WalRecord"):
                for k, (bi, si, rv, ln) in enumerate(find_aggregates(g, adt)):
                    v = rv[3] if adt == "WalRecord" else adt
                    if adt == "WalRecord" and v in ("TxCommit", "TxAbort", "Checkpoint"):
                        continue
                    want_edge = "Edge" in v
                    for fname, op in zip(rv[5], rv[4]):
                        fn_ = fname.strip('"')
                        if fn_ not in SRC:
                            continue
                        tg = gx.tags(op)
                        srcs = ["cell:" + s for s in SRC[fn_] if ("Edge" in s) == want_edge]
                        ok = any(s in tg for s in srcs)
                        n1 += 1
                        ctx.ob("R1", "%s#%s.%s" % (pname, v, fn_), ok,
                               what="in GrafeoDB::%s the field `%s` of %s is not fed from %s of the entity being copied: the copy differs "
                                    "from the source" % (pname, fn_, v, " / ".join(s[5:] for s in srcs)), where=g.loc(ln))
            # store constructor calls
            for bi, t in g.calls():
                c = callee_name(t)
                if not c.startswith(common.LPG + "::"):
                    continue
                m = c.split("::")[-1]
                if m not in NODE_ONLY | EDGE_ONLY:
                    continue
                cf = P.fns[c]
                want_edge = m in EDGE_ONLY
                for i, a in enumerate(t["args"]):
                    pn = cf.names().get(i + 1)
                    if pn not in SRC:
                        continue
                    tg = gx.tags(a)
                    srcs = ["cell:" + s for s in SRC[pn] if ("Edge" in s) == want_edge]
                    ok = any(s in tg for s in srcs)
                    n1 += 1
                    ctx.ob("R1", "%s#%s(%s)" % (pname, m, pn), ok,
                           what="in GrafeoDB::%s the argument `%s` of LpgStore::%s is not fed from %s: the copy differs from the source"
                                % (pname, pn, m, " / ".join(s[5:] for s in srcs)), where=g.loc(t["line"]))
    ctx.floor("R1", n1, 40, "field / argument flows on the four copy paths")

    # ---- R1b nothing is dropped on the way: the copy paths contain no filtering / truncating iterator adaptor
    DROPPING = ("filter", "take", "skip", "take_while", "skip_while", "step_by", "nth", "last", "dedup", "dedup_by_key", "truncate",
                "filter_map", "find", "find_map", "retain", "pop", "swap_remove", "split_off", "first", "min", "max")
    for pname, root in paths.items():
        hits = []
        # the path itself, its closures, and the helpers it calls inside the engine's database module
        scope = []
        for fid in P.reach([root], edge_filter=lambda x, y: y.startswith("grafeo_engine::database::") and
                           not y.startswith("grafeo_engine::database::GrafeoDB::") or P.fns[y].kind == "closure" and (P.fns[y].parent or "").startswith("grafeo_engine::database::")):
            scope.append(P.fns[fid])
        for g in scope:
            for bi, t in g.calls():
                c = callee_name(t)
                if c.split("::")[-1] in DROPPING and ("iter" in c or "alloc::vec" in c or "slice" in c or "collections" in c):
                    hits.append((c.split("::")[-1], g.loc(t["line"])))
        ctx.ob("R1b", "%s#no-dropping-adaptor" % pname, not hits,
               what="GrafeoDB::%s passes the entities / labels / properties it copies through %s: part of the graph can be left out "
                    "of the copy" % (pname, hits[:3]), where=root.loc())

    # ---- R2 enumerators and id-preserving constructors
    for pname, root in paths.items():
        R = P.reach([root], edge_filter=lambda x, y: True)
        fam = {g.id for g in P.family(root)}
        direct = set()
        for g in P.family(root):
            for bi, t in g.calls():
                direct.add(callee_name(t))
        if pname != "import_snapshot":
            for en in ("all_nodes", "all_edges"):
                ctx.ob("R2", "%s#enumerates:%s" % (pname, en), (common.LPG + "::" + en) in direct,
                       what="GrafeoDB::%s does not enumerate the source with LpgStore::%s" % (pname, en), where=root.loc())
        if pname != "export_snapshot":
            for cn in ("create_node_with_id", "create_edge_with_id", "set_node_property", "set_edge_property"):
                ctx.ob("R2", "%s#rebuilds:%s" % (pname, cn), (common.LPG + "::" + cn) in direct,
                       what="GrafeoDB::%s does not rebuild the copy with LpgStore::%s (identifiers / properties are not preserved)" % (pname, cn),
                       where=root.loc())
            for bad in ("create_node", "create_edge", "create_node_with_props", "create_edge_with_props"):
                ctx.ob("R2", "%s#no-fresh-ids:%s" % (pname, bad), (common.LPG + "::" + bad) not in direct,
                       what="GrafeoDB::%s creates entities with LpgStore::%s, which allocates fresh identifiers" % (pname, bad), where=root.loc())
    # export encodes the snapshot it built; import decodes a Snapshot and checks its version before building
    ex = paths["export_snapshot"]
    ok = any(callee_name(t).startswith("bincode::") and "encode" in callee_name(t) and "Snapshot" in t["ga"] for bi, t in ex.calls())
    ctx.ob("R2", "export_snapshot#encodes-snapshot", ok, what="export_snapshot does not encode the Snapshot value", where=ex.loc())
    im = paths["import_snapshot"]
    ok = any(callee_name(t).startswith("bincode::") and "decode" in callee_name(t) and "Snapshot" in t["ga"] for bi, t in im.calls())
    ctx.ob("R2", "import_snapshot#decodes-snapshot", ok, what="import_snapshot does not decode a Snapshot value", where=im.loc())

    # ---- R3 enumeration clock has a writer on the commit path
    clock = (common.LPG, "current_epoch")
    an = P.fn("LpgStore::all_nodes")
    _, Rn = E.closure_sets([an])
    scommit = P.fn("Session::commit")
    Wc, _ = E.closure_sets([scommit])
    reads_store_clock = clock in Rn
    ok = (not reads_store_clock) or (clock in Wc)
    ctx.ob("R3", "enumeration-clock", ok,
           what="LpgStore::all_nodes/all_edges (used by export, save, to_memory, node_count) decide visibility with "
                "LpgStore.current_epoch, which no commit ever advances: entities committed by transactions after the first "
                "epoch are not exported, saved, copied or counted", where=an.loc())

    # ---- R4 import robustness
    ix = FlowCx(P, im)
    mut_blocks = [bi for bi, t in im.calls() if callee_name(t).startswith(common.LPG + "::") or short_id(callee_name(t)) == "GrafeoDB::new_in_memory"]
    store_blocks = [bi for bi, t in im.calls() if callee_name(t).startswith(common.LPG + "::")]
    ctx.floor("R4", len(store_blocks), 4, "store calls in import_snapshot")
    err_blocks = [bi for (bi, si, rv, ln) in find_aggregates(im, "core::result::Result", "Err")]
    err_blocks += [bi for bi, t in im.calls() if (t["f"] or "").endswith("FromResidual::from_residual")]
    ctx.floor("R4", len(err_blocks), 2, "error returns in import_snapshot")
    bad = []
    for sb in store_blocks:
        after = im.reachable_blocks(sb)
        bad += [eb for eb in err_blocks if eb in after]
    ctx.ob("R4", "import_snapshot#errors-before-mutation", not bad,
           what="import_snapshot can return an error after it has started filling the new database (partially filled result)", where=im.loc())
    ps = []
    for g in P.family(im):
        ps += own_panic_sites(g)
    ctx.ob("R4", "import_snapshot#no-explicit-panic", not ps,
           what="import_snapshot contains explicit panic sites %s" % [(p["kind"], p["line"]) for p in ps], where=im.loc())
    # ---- R5 (= C16-R5b) the snapshot and log records are written and read field by field, unconditionally
    from .c16 import serde_complete
    serde_complete(ctx, P, "R5", ["grafeo_engine::database::Snapshot", "grafeo_engine::database::SnapshotNode",
                                  "grafeo_engine::database::SnapshotEdge", "grafeo_common::types::value::Value",
                                  "grafeo_adapters::storage::wal::record::WalRecord"])
    # ---- R6 (= C14-R2b) what the copy paths enumerate is the primary table
    from .c14 import enumerators_use_primary
    enumerators_use_primary(ctx, P, ctx.effects(), "R6")
