"""Run the grafeo-facts driver over /repo's *current working tree* and cache the result by content
hash, so that twenty checks on one tree share one extraction and any edit to /repo forces a new one."""
import fcntl, hashlib, json, os, shutil, subprocess, sys, time

from .facts import CheckerError

VERIF = os.path.dirname(os.path.dirname(os.path.abspath(__file__)))
REPO = os.environ.get("VERIF_REPO", "/repo")
CACHE = os.path.join(VERIF, ".cache")
DRIVER = os.path.join(VERIF, "engine", "target", "release", "grafeo-facts")

# configurations analysed. "main" is the feature set the workspace test build unifies for the four
# core crates plus the C binding.
CONFIGS = {
    "main": {
        "args": ["-p", "grafeo-engine", "-p", "grafeo-c", "-p", "grafeo", "-p", "grafeo-cli",
                 "--features", "grafeo-engine/full,grafeo-engine/vector-index"],
        "expect": ["grafeo_common", "grafeo_core", "grafeo_adapters", "grafeo_engine", "grafeo_c"],
    },
    "tiered": {
        "args": ["-p", "grafeo-engine", "--features",
                 "grafeo-engine/full,grafeo-engine/vector-index,grafeo-core/tiered-storage"],
        "expect": ["grafeo_common", "grafeo_core", "grafeo_adapters", "grafeo_engine"],
    },
    "succinct": {
        "args": ["-p", "grafeo-core", "--features",
                 "grafeo-core/succinct-indexes,grafeo-core/ring-index,grafeo-core/vector-index,grafeo-core/rdf"],
        "expect": ["grafeo_common", "grafeo_core"],
    },
}


def sysroot():
    return subprocess.check_output(["rustc", "+nightly", "--print", "sysroot"], text=True).strip()


def tree_hash(repo=REPO):
    """content hash over every source file cargo can see (tracked or not), manifests and lock file"""
    h = hashlib.sha256()
    roots = [os.path.join(repo, "crates"), os.path.join(repo, "Cargo.toml"), os.path.join(repo, "Cargo.lock")]
    files = []
    for r in roots:
        if os.path.isfile(r):
            files.append(r)
        else:
            for dp, dn, fn in os.walk(r):
                dn[:] = sorted(d for d in dn if d not in ("target", "node_modules", ".git"))
                for f in sorted(fn):
                    if f.endswith((".rs", ".toml", ".lock")):
                        files.append(os.path.join(dp, f))
    for f in sorted(files):
        h.update(os.path.relpath(f, repo).encode())
        h.update(b"\0")
        with open(f, "rb") as fh:
            h.update(fh.read())
        h.update(b"\0")
    with open(DRIVER, "rb") as fh:
        h.update(hashlib.sha256(fh.read()).digest())
    return h.hexdigest()[:24]


def ensure_driver():
    """build the driver when it is missing or older than its sources"""
    srcs = [os.path.join(VERIF, "engine", x) for x in ("src/main.rs", "Cargo.toml", "rust-toolchain.toml")]
    if not os.path.exists(DRIVER) or any(os.path.exists(x) and os.path.getmtime(x) > os.path.getmtime(DRIVER) for x in srcs):
        build_driver()


def build_driver():
    env = dict(os.environ, CARGO_NET_OFFLINE="true")
    r = subprocess.run(["cargo", "+nightly", "build", "--release", "--offline"], cwd=os.path.join(VERIF, "engine"),
                       env=env, stdout=subprocess.PIPE, stderr=subprocess.STDOUT, text=True)
    if r.returncode != 0 or not os.path.exists(DRIVER):
        raise CheckerError("driver build failed:\n" + r.stdout[-4000:])


def facts_dir(config="main", repo=REPO, quiet=False):
    """returns the directory holding fact files for the current tree + config, extracting if needed"""
    ensure_driver()
    os.makedirs(CACHE, exist_ok=True)
    lock = open(os.path.join(CACHE, "lock"), "w")
    fcntl.flock(lock, fcntl.LOCK_EX)
    try:
        th = tree_hash(repo)
        out = os.path.join(CACHE, "facts", "%s-%s" % (th, config))
        if os.path.exists(os.path.join(out, "DONE")):
            os.utime(out, None)   # eviction below is least-recently-used
            return out
        cfg = CONFIGS[config]
        tmp = out + ".tmp"
        shutil.rmtree(tmp, ignore_errors=True)
        os.makedirs(tmp)
        tdir = os.path.join(CACHE, "target-" + config)
        # cargo's freshness cache would skip the wrapper: drop the workspace members' fingerprints
        fp = os.path.join(tdir, "debug", ".fingerprint")
        if os.path.isdir(fp):
            for d in os.listdir(fp):
                if d.startswith("grafeo"):
                    shutil.rmtree(os.path.join(fp, d), ignore_errors=True)
        env = dict(os.environ)
        env.update({
            "LD_LIBRARY_PATH": sysroot() + "/lib" + (":" + env["LD_LIBRARY_PATH"] if env.get("LD_LIBRARY_PATH") else ""),
            "CARGO_NET_OFFLINE": "true",
            "CARGO_TARGET_DIR": tdir,
            "RUSTFLAGS": "-Zmir-opt-level=0 -Awarnings",
            "RUSTC_WORKSPACE_WRAPPER": DRIVER,
            "GRAFEO_FACTS_DIR": tmp,
        })
        env.pop("RUSTC_WRAPPER", None)
        t0 = time.time()
        if not quiet:
            print("[extract] config=%s tree=%s ..." % (config, th), file=sys.stderr)
        r = subprocess.run(["cargo", "+nightly", "check", "--offline"] + cfg["args"], cwd=repo, env=env,
                           stdout=subprocess.PIPE, stderr=subprocess.STDOUT, text=True)
        if r.returncode != 0:
            raise CheckerError("cargo check of %s failed (config %s):\n%s" % (repo, config, r.stdout[-6000:]))
        got = set()
        for f in os.listdir(tmp):
            if f.endswith(".json"):
                got.add(f.split(".")[0])
        missing = [c for c in cfg["expect"] if c not in got]
        if missing:
            raise CheckerError("driver did not run for crates %s (config %s); cargo output:\n%s"
                               % (missing, config, r.stdout[-3000:]))
        with open(os.path.join(tmp, "DONE"), "w") as fh:
            json.dump({"tree": th, "config": config, "wall_s": round(time.time() - t0, 1), "crates": sorted(got)}, fh)
        shutil.rmtree(out, ignore_errors=True)
        os.rename(tmp, out)
        # keep the cache small: drop fact dirs other than the 16 most recent
        base = os.path.join(CACHE, "facts")
        ds = sorted((os.path.getmtime(os.path.join(base, d)), d) for d in os.listdir(base))
        if len(ds) > 16:
            try:
                keep = tree_hash(REPO)       # the facts of /repo's own tree are never evicted by scratch-copy runs
            except OSError:
                keep = None
            for _, d in ds[:-16]:
                if keep and d.startswith(keep):
                    continue
                shutil.rmtree(os.path.join(base, d), ignore_errors=True)
        if not quiet:
            print("[extract] done in %.1fs" % (time.time() - t0), file=sys.stderr)
        return out
    finally:
        fcntl.flock(lock, fcntl.LOCK_UN)
        lock.close()
