"""C03 - first committer wins (DESIGN §5 C03)."""
from .facts import CheckerError, short_id, must_pass
from .flow import FlowCx, find_aggregates, find_calls, callee_name
from .cells import Effects
from . import common

EXPLANATION = (
    "Decides structural necessary conditions of first-committer-wins on the MIR of TransactionManager::commit/gc "
    "and the session mutation paths: (R1) write registration reaches the manager from every transactional mutation "
    "entry point; (R2/R6) every WriteConflict refusal is control-dependent on the strict overlap test "
    "commit_epoch(other) > start_epoch(ours) and on write-set membership; (R3) no refusal is reachable after the "
    "epoch/state publication; (R4) the transactions write guard is held from validation to publication; (R5) gc only "
    "drops a committed transaction under commit_epoch <(=) the MINIMUM active start epoch and never an active one; (R7) "
    "record_write inserts its entity into the write set of the transaction named by its argument while Active, commit "
    "validates the committing transaction's own sets, TxInfo::new stores its arguments. (R8) commit only reads the write sets, so a refused transaction keeps its set; (R9) one exclusive guard on the transaction table spans every refusal decision and the state = Committed write. "
    "(R10) a finished transaction never changes state again (gc drops Aborted records at once); R7 also: every Ok return of record_write has registered the entity. "
    "It does not enumerate histories.")
ASSUMPTIONS = [
    "operands are identified by provenance (TxInfo.start_epoch, TransactionManager.committed_epochs, TxInfo.write_set), not by name",
    "callee resolution and dominators are rustc's",
]

START = "cell:TxInfo.start_epoch"
COMMITTED = "cell:TransactionManager.committed_epochs"
WRITE_SET = "cell:TxInfo.write_set"


def overlap_fact(facts):
    """returns canonical op of (commit_epoch ? start_epoch) among the facts holding at a block, or None"""
    for f in facts:
        if f[0] != "cmp":
            continue
        op, a, b = f[1], f[2], f[3]
        flip = {"Lt": "Gt", "Gt": "Lt", "Le": "Ge", "Ge": "Le", "Eq": "Eq", "Ne": "Ne"}
        if START in b and START not in a and COMMITTED in a:
            return op
        if START in a and START not in b and COMMITTED in b:
            return flip[op]
    return None


def membership_fact(facts, which):
    for f in facts:
        if f[0] == "call" and f[1].endswith("::contains") and f[2] is True:
            if any(which in t for t in f[3][:1]):
                return True
    return False


def run(ctx):
    P = ctx.program()
    whole_chain_conflict_scan(ctx, P, "R11")
    from .c04 import start_epoch_is_immutable
    start_epoch_is_immutable(ctx, P, "R12")
    commit = P.fn("TransactionManager::commit")
    # R8: validation only reads the write sets (a refused commit leaves the transaction Active: whatever commit removed
    # from its write set is missing when it is validated again, and both overlapping writers end up committed)
    from .c04 import sets_read_only
    sets_read_only(ctx, P, commit, "R8", ("write_set",), 2)
    # R10 (= C02-R5): a finished transaction never changes state again
    from .c02 import state_machine
    state_machine(ctx, P, ctx.effects(), "R10")
    from .c04 import atomic_validate_publish
    atomic_validate_publish(ctx, P, commit, "R9", [("TransactionError", "WriteConflict")])
    cx = FlowCx(P, commit)

    # ---- R1: write registration reachable from every transactional mutation entry point
    rec = P.fn("TransactionManager::record_write")
    entries = common.mutation_entries(P)
    ctx.floor("R1", len(entries), 10, "transactional mutation entry points")
    callers = P.callers_closure([rec.id])
    for e in entries:
        ok = e.id in callers
        ctx.ob("R1", short_id(e.id), ok,
               what="no call path from %s to TransactionManager::record_write: commit-time validation sees an empty write set" % short_id(e.id),
               where=e.loc())

    # ---- R2 / R6: every WriteConflict is guarded by the strict overlap test and write-set membership
    wc = find_aggregates(commit, "TransactionError", "WriteConflict")
    ctx.floor("R2", len(wc), 2, "WriteConflict constructions in TransactionManager::commit")
    for n, (bi, si, rv, ln) in enumerate(wc):
        facts = cx.facts_at(bi)
        op = overlap_fact(facts)
        inst = "TransactionManager::commit#WriteConflict[%d]" % n
        ctx.ob("R2", inst, op is not None,
               what="WriteConflict refusal is not control-dependent on an epoch-overlap test "
                    "(commit epoch of the other writer vs our start epoch): a writer that committed before we began refuses us",
               where=commit.loc(ln))
        if op is not None:
            ctx.ob("R6", inst, op == "Gt",
                   what="overlap test is `commit_epoch %s start_epoch`, must be strict `>`" % op, where=commit.loc(ln))
        ctx.ob("R2m", inst, membership_fact(facts, WRITE_SET),
               what="WriteConflict refusal is not control-dependent on membership of an entity in the other transaction's write set",
               where=commit.loc(ln))

    # ---- R3: nothing is refused after publication
    pubs = []
    eff = ctx.effects()
    for a in eff.own_acc(commit):
        if a.cell == ("grafeo_engine::transaction::manager::TransactionManager", "current_epoch") and a.kind == "RMW":
            pubs.append(("epoch", a.block, a.line))
        if a.cell == ("grafeo_engine::transaction::manager::TxInfo", "state") and a.kind == "W" and a.how == "assign":
            pubs.append(("state", a.block, a.line))
    # publication moved into a helper of the manager: the call is the publication site
    for bi, t in commit.calls():
        g = P.fns.get(callee_name(t))
        if g is not None and g.id != commit.id and g.krate == commit.krate:
            W, _ = eff.closure_sets([g])
            if ("grafeo_engine::transaction::manager::TxInfo", "state") in W and not any(k == "state" for k, _, _ in pubs):
                pubs.append(("state", bi, t["line"]))
            if ("grafeo_engine::transaction::manager::TransactionManager", "current_epoch") in W and not any(k == "epoch" for k, _, _ in pubs) \
                    and any(a.kind == "RMW" and a.cell[1] == "current_epoch" for h in P.reach([g]) for a in eff.own_acc(P.fns[h])):
                pubs.append(("epoch", bi, t["line"]))
    ctx.floor("R3", len(pubs), 2, "publication sites (epoch RMW, state assignment) in commit")
    errs = [x[0] for x in find_aggregates(commit, "TransactionError", "WriteConflict")] + \
           [x[0] for x in find_aggregates(commit, "TransactionError", "SerializationFailure")]
    contains = [bi for bi, t in find_calls(commit, lambda c: c.endswith("HashSet::contains"))]
    for kind, blk, ln in pubs:
        after = commit.reachable_blocks(blk)
        bad = [b for b in errs + contains if b in after and b != blk]
        ctx.ob("R3", "TransactionManager::commit#publish:%s" % kind, not bad,
               what="validation (conflict test / refusal) is reachable after the %s publication: validation does not dominate publication" % kind,
               where=commit.loc(ln))
        # and every validation loop is before: publication must not be reachable without passing entry... (dominance)
    # the epoch RMW must be a single fetch_add (unique, increasing epochs)
    # ---- R4: one critical section
    locks = [a for a in eff.own_acc(commit)
             if a.cell == ("grafeo_engine::transaction::manager::TransactionManager", "transactions") and a.kind in ("LOCK_W", "LOCK_R")]
    ctx.floor("R4", len(locks), 1, "acquisitions of TransactionManager.transactions in commit")
    ok_mode = len(locks) == 1 and locks[0].kind == "LOCK_W"
    ctx.ob("R4", "TransactionManager::commit#lock-mode", ok_mode,
           what="commit must take exactly one write lock on `transactions` covering validation and publication (found %s)"
                % [(l.kind, l.line) for l in locks], where=commit.loc())
    if ok_mode:
        guard = common.guard_local(commit, locks[0].block)
        kills = common.guard_kills(commit, guard)
        first_val = min(contains) if contains else None
        bad = []
        for kb in kills:
            after = commit.reachable_blocks(kb)
            for kind, blk, ln in pubs:
                if blk in after and blk != kb:
                    bad.append((kb, kind))
            for c in contains:
                if c in after:
                    bad.append((kb, "validation"))
        ctx.ob("R4", "TransactionManager::commit#guard-span", not bad,
               what="the `transactions` write guard is released before %s: validation and publication are not one critical section" % sorted(set(k for _, k in bad)),
               where=commit.loc(locks[0].line))
        dom = all(commit.dominates(locks[0].block, c) for c in contains) and all(commit.dominates(locks[0].block, b) for _, b, _ in pubs)
        ctx.ob("R4", "TransactionManager::commit#guard-dominates", dom,
               what="the `transactions` write lock acquisition does not dominate validation and publication", where=commit.loc(locks[0].line))

    # ---- R7 plumbing of the write set and of the validated snapshot
    plumbing(ctx, P, "record_write")
    # the sets and epochs validated in commit are those of the committing transaction (looked up by the tx_id parameter)
    for n, (bi, si, rv, ln) in enumerate(wc):
        for x in cx.facts_at(bi):
            if x[0] == "call" and x[1].endswith("::contains") and x[2] is True and len(x[3]) >= 2:
                ours = "param:2" in x[3][1] and WRITE_SET in x[3][1]
                theirs = WRITE_SET in x[3][0]
                ctx.ob("R7", "TransactionManager::commit#WriteConflict[%d]/sets" % n, ours and theirs,
                       what="the write-write test does not compare the committing transaction's own write set (looked up by tx_id) "
                            "with the other transaction's write set", where=commit.loc(ln))
    # the transaction's start epoch comes from TxInfo::new's first parameter and the isolation level from its second
    tn = P.fn("TxInfo::new")
    tx_ = FlowCx(P, tn)
    for (bi, si, rv, ln) in find_aggregates(tn, "TxInfo"):
        for fname, op in zip(rv[5], rv[4]):
            fn_ = fname.strip('"')
            want = {"start_epoch": "param:1", "isolation_level": "param:2"}.get(fn_)
            if want:
                ctx.ob("R7", "TxInfo::new#%s" % fn_, want in tx_.tags(op),
                       what="TxInfo::new does not store its %s argument in TxInfo.%s" % (fn_, fn_), where=tn.loc(ln))
            if fn_ == "state":
                ctx.ob("R7", "TxInfo::new#state", "agg:TxState::Active" in tx_.tags(op) or "const:TxState::Active" in tx_.tags(op),
                       what="a new transaction does not start Active", where=tn.loc(ln))

    # ---- R5: gc retention
    gc = P.fn("TransactionManager::gc")
    found = []
    active_true = []
    removes_active = False
    for g in P.family(gc):
        gx = FlowCx(P, g)
        for bi, b in enumerate(g.blocks):
            if b["cl"]:
                continue
            for st in b["s"]:
                rv = st[1]
                if rv[0] == "bin" and rv[1] in ("Lt", "Le", "Gt", "Ge", "Eq", "Ne"):
                    a, bb = gx.tags(rv[2]), gx.tags(rv[3])
                    flip = {"Lt": "Gt", "Gt": "Lt", "Le": "Ge", "Ge": "Le", "Eq": "Eq", "Ne": "Ne"}
                    if COMMITTED in a and START in bb and START not in a:
                        found.append((g, rv[1], st[2], bb))
                    elif COMMITTED in bb and START in a and START not in bb:
                        found.append((g, flip[rv[1]], st[2], a))
        # arms of the TxState switch: an Active arm that yields `true`
        for bi, b in enumerate(g.blocks):
            if b["cl"]:
                continue
            for st in b["s"]:
                pl, rv, ln = st
                if pl == [0] and rv[0] == "use" and rv[1][0] == "k" and str(rv[1][1]) in ("1", "true") and g.local_ty(0) == "bool":
                    for f in gx.facts_at(bi):
                        if f[0] == "variant" and f[1].endswith("TxState") and f[2] == "Active":
                            active_true.append((g, ln))
    ctx.floor("R5", 1, 1, "gc analysed")
    ctx.ob("R5", "TransactionManager::gc#retention-test", len(found) >= 1,
           what="gc has no comparison between a committed transaction's commit epoch and the minimum active start epoch: "
                "clean-up can drop write sets that overlapping transactions still need",
           where=gc.loc())
    for (g, op, ln, start_tags) in found:
        # the bound is the OLDEST active start epoch: it is aggregated with a minimum, never a maximum
        mins = sorted(x for x in start_tags if x.startswith("call:") and "min" in x.split("::")[-1].lower())
        maxs = sorted(x for x in start_tags if x.startswith("call:") and "max" in x.split("::")[-1].lower())
        ctx.ob("R5", "TransactionManager::gc#oldest-active", not maxs,
               what="gc compares commit epochs with the MAXIMUM of the active start epochs (%s): the write set of a transaction that "
                    "committed after an older, still active transaction began is dropped, and that transaction's conflicting commit "
                    "is then accepted" % maxs, where=g.loc(ln), info=False)
        ctx.ob("R5", "TransactionManager::gc#retention-op", op in ("Lt", "Le"),
               what="gc removes a committed transaction under `commit_epoch %s min_active_start`; only `<`/`<=` keeps every write set an active transaction may conflict with" % op,
               where=g.loc(ln))
    ctx.ob("R5", "TransactionManager::gc#active-kept", not active_true,
           what="gc's removal predicate can yield true for an Active transaction", where=gc.loc())


def plumbing(ctx, P, which):
    """record_write / record_read put the entity into the set of the transaction named by their tx_id parameter,
    only while that transaction is Active; TxInfo::new stores its parameters in the same-named fields"""
    setname = {"record_write": "write_set", "record_read": "read_set"}[which]
    f = P.fn("TransactionManager::" + which)
    fx = FlowCx(P, f)
    ins = [(bi, t) for bi, t in f.calls() if callee_name(t).endswith("HashSet::insert")]
    ok = False
    guarded = False
    for bi, t in ins:
        rt = fx.tags(t["args"][0])
        vt = fx.tags(t["args"][1])
        if ("cell:TxInfo." + setname) in rt and "param:2" in rt and "param:3" in vt:
            ok = True
            guarded = any(x[0] == "cmp" and x[1] == "Eq" and (("cell:TxInfo.state" in x[2] and "const:TxState::Active" in x[3]) or
                                                            ("cell:TxInfo.state" in x[3] and "const:TxState::Active" in x[2]))
                          for x in fx.facts_at(bi))
    ctx.ob("R7", "TransactionManager::%s#registers" % which, ok,
           what="TransactionManager::%s does not insert its entity argument into TxInfo.%s of the transaction named by its tx_id "
                "argument: validation works on the wrong or an empty set" % (which, setname), where=f.loc())
    ctx.ob("R7", "TransactionManager::%s#active-only" % which, guarded,
           what="TransactionManager::%s registers into a transaction without testing that it is Active" % which, where=f.loc())
    # every successful return has registered the entity: an `Ok` reached without the insertion (an early return for
    # some "nothing can use it" case) makes validation work on an incomplete set
    I = {bi for bi, t in ins}
    # ... or is known to hold it already (`if set.contains(&e) { return Ok(()) }`)
    for bi in range(len(f.blocks)):
        if not f.blocks[bi]["cl"] and any(x[0] == "call" and x[1].endswith("::contains") and x[2] is True and
                                          any(("cell:TxInfo." + setname) in a for a in x[3] if isinstance(a, (set, frozenset)))
                                          for x in fx.facts_at(bi)):
            I.add(bi)
    oks = {bi for (bi, si, rv, ln) in find_aggregates(f, "core::result::Result", "Ok")}
    ctx.floor("R7", len(oks), 1, "Ok returns of TransactionManager::%s" % which)
    ctx.ob("R7", "TransactionManager::%s#always-registers" % which, bool(ins) and must_pass(f, 0, I, oks),
           what="TransactionManager::%s can return Ok without inserting the entity into TxInfo.%s (a path to the success value "
                "that skips the insertion): the transaction is validated against an incomplete %s" % (which, setname, setname.replace("_", " ")),
           where=f.loc())



def whole_chain_conflict_scan(ctx, P, rule):
    """VersionChain::has_conflict answers "did anyone else write this entity after my snapshot". The asking transaction's own
    version can be the newest one, with the concurrent writer's version behind it, so the scan must cover the whole
    chain: an iteration over `versions`, never a look at one end (front/back/first/last/get)."""
    n = 0
    for f in sorted(P.fns.values(), key=lambda f: f.id):
        if not (f.id.endswith("::has_conflict") and "mvcc::Version" in f.id) or f.kind == "closure":
            continue
        n += 1
        ends = []
        iters = 0
        for g in P.family(f):
            gx = FlowCx(P, g)
            for bi, t in g.calls():
                nm = (t.get("f") or callee_name(t)).split("::")[-1]
                if not t["args"]:
                    continue
                tg = gx.tags(t["args"][0])
                if not any(x.startswith("cell:") and x.endswith(".versions") for x in tg):
                    continue
                if nm in ("front", "back", "first", "last", "get", "front_mut", "back_mut", "pop_front", "pop_back"):
                    ends.append((g, t["line"], nm))
                if nm in ("iter", "into_iter", "iter_mut", "values", "range"):
                    iters += 1
        ok = not ends and iters > 0
        ctx.ob(rule, "%s#whole-chain" % short_id(f.id), ok,
               what="%s decides a write-write conflict from one end of the version chain (%s) instead of scanning it: when the asking "
                    "transaction's own version is the newest, the concurrent writer's version behind it is never examined and both "
                    "writers commit" % (short_id(f.id), ends[0][2] if ends else "no iteration over `versions`"), where=(ends[0][0].loc(ends[0][1]) if ends else f.loc()))
    ctx.floor(rule, n, 1, "has_conflict implementations")
