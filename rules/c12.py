"""C12 - no query text can crash or hang the embedding process (named panic/abort kinds; DESIGN §5 C12)."""
import re
from .facts import short_id, CheckerError
from .flow import FlowCx, callee_name
from .panics import own_panic_sites, arith_traps
from . import common

EXPLANATION = (
    "Decides named crash kinds on the resolved MIR of everything reachable from the five front ends: (K1) no trapping "
    "i64 +,-,*,/,%,neg on data-dependent operands in expression evaluation, folding and aggregation (modulo a reasoned "
    "exception table); (K2/K3) the explicit panic / unwrap / expect sites in lexers, parsers, translators, binder and "
    "processor are exactly the allow-listed ones (each with the local invariant that makes it unreachable); (K4) a "
    "lexer field that is used to slice the source string is only advanced by len_utf8()/str lengths or restored from a "
    "saved copy, and slices never use cursor+constant; (K5) with the depth-guarded entries removed, every parser's call "
    "graph is acyclic (each recursion cycle passes a depth check); (K5b) the same for translators, binder, optimizer and "
    "planners, whose recursion follows AST/plan depth; (K7, information only) FFI entry points and catch_unwind. "
    "A division / remainder trap is discharged only when every path establishes divisor != 0 and (divisor != -1 or dividend != MIN). "
    "K5: the depth limit itself is at most 1000; (K6) every float-to-usize conversion in query-reachable code is bounded at its use or fed only from float fields whose every producer clamps raw values. "
    "(K5c) inside a recursion cycle of a translator every AST argument of the recursive call comes from the caller's own parameters, never from a by-name lookup in a table the translator owns (a self-referential definition would recurse for ever); (K8) every cycle of every loop in the five lexers and parsers passes a block that moves the input cursor, calls a function that "
    "always consumes input on its success paths (whose error side cannot re-enter the loop), or pulls a finite iterator - otherwise "
    "some input makes the loop spin for ever. "
    "(K8b) on parser loops that consume only through the bare cursor primitive, each primitive call is behind a positive test of the current token, so the loop ends at the end of input. Slice-index bounds and allocation size are not decided.")
ASSUMPTIONS = ["overflow checks are on in the profile the tests run in (dev/test), so an arithmetic Assert is a reachable panic",
               "rapid type analysis from the session entry points decides which operators are reachable"]

FRONT = ("grafeo_adapters::query::", "grafeo_engine::query::gql_translator", "grafeo_engine::query::cypher_translator",
         "grafeo_engine::query::sparql_translator", "grafeo_engine::query::gremlin_translator",
         "grafeo_engine::query::graphql_translator", "grafeo_engine::query::graphql_rdf_translator",
         "grafeo_engine::query::binder", "grafeo_engine::query::processor", "grafeo_engine::query::translator")

# (function, kind) -> (allowed count, invariant that makes the site unreachable)
ALLOW = {
    ("gql::parser::Parser::peek_kind", "unwrap"): (1, "self.peeked is assigned Some(..) on the line before when it was None"),
    ("sparql::parser::Parser::parse_group_graph_pattern", "unwrap"): (1, "guarded by patterns.len() == 1"),
    ("sparql::parser::Parser::parse_group_or_subquery", "unwrap"): (1, "guarded by patterns.len() == 1"),
    ("sparql::parser::Parser::parse_string_value", "unwrap"): (2, "the token kind LongString/String guarantees a leading quote character"),
    ("graphql_translator::GraphQLTranslator::combine_with_and", "unwrap"): (1, "reduce() on a vector checked non-empty at function entry"),
    ("gremlin_translator::GremlinTranslator::translate_statement", "unwrap"): (4, "each take().unwrap() is guarded by from_var.is_some() && to_var.is_some()"),
    ("gremlin_translator::GremlinTranslator::translate_step", "unwrap"): (1, "pop() on a vector built from a non-empty label list (checked before)"),
    ("sparql_translator::SparqlTranslator::translate_insert_data", "unwrap"): (1, "guarded by ops.len() == 1"),
    ("sparql_translator::SparqlTranslator::translate_delete_data", "unwrap"): (1, "guarded by ops.len() == 1"),
    ("sparql_translator::SparqlTranslator::translate_delete_where", "unwrap"): (1, "guarded by ops.len() == 1"),
    ("sparql_translator::SparqlTranslator::translate_graph_pattern", "unwrap"): (1, "reduce() over filter expressions inside `if !filter_exprs.is_empty()`"),
}
K1_EXCEPT = {
    ("ExpressionPredicate::eval_expr", "Overflow:Add"):
        "negative index: `len as i64 + i` is evaluated only under `i < 0` with len >= 0, which cannot overflow",
    ("FactorizedAggregate::compute_with_multiplicities", "Overflow:Add"):
        "row-count accumulator over multiplicities; reaching 2^63 rows is not feasible in time",
}


def _div_guarded(P, f, tr):
    """a DivisionByZero / RemainderByZero assert is unreachable when every path to it has established divisor != 0
    (or a strict sign test); the MIN / -1 overflow assert when divisor != -1, divisor > -1.. or dividend != MIN holds."""
    k = tr["kind"]
    if not (k.startswith(("DivisionByZero", "RemainderByZero")) or k in ("Overflow:Div", "Overflow:Rem")):
        return False
    fx = FlowCx(P, f)
    bi = tr["block"]
    c = tr["term"]["cond"]
    if c[0] == "k":
        return False
    defs = f.defs().get(c[1][0], [])

    def fact_is(fact, vt, consts, rels):
        if fact[0] != "cmp":
            return False
        _, op, a, b, _blk = fact
        for x, y, o in ((a, b, op), (b, a, _FLIP.get(op, op))):
            if x == vt and y and all(t in consts for t in y) and o in rels:
                return True
        return False
    wanted = []   # (value tags, constants, relations): any one of them on every path discharges the trap
    eqs = []
    for d in defs:
        rv = d[3]
        if rv[0] == "bin" and rv[1] == "Eq":
            eqs.append((rv[2], rv[3]))
        elif rv[0] == "bin" and rv[1] == "BitAnd":
            for o in (rv[2], rv[3]):
                if o[0] != "k":
                    for d2 in f.defs().get(o[1][0], []):
                        if d2[3][0] == "bin" and d2[3][1] == "Eq":
                            eqs.append((d2[3][2], d2[3][3]))
    for val, kc in eqs:
        if kc[0] != "k":
            continue
        cv = str(kc[1])
        vt = fx.tags(val)
        if cv == "0":
            wanted.append((vt, {"const:0"}, ("Ne", "Gt", "Lt")))
        if cv == "-1":
            wanted.append((vt, {"const:-1"}, ("Ne", "Gt")))
            wanted.append((vt, {"const:0"}, ("Gt", "Ge")))
        if cv == "-9223372036854775808":
            wanted.append((vt, {"const:-9223372036854775808"}, ("Ne", "Gt")))
    if not wanted:
        return False
    return fx.every_path_has(bi, lambda fact: any(fact_is(fact, vt, cs, rels) for vt, cs, rels in wanted))


def _divcall_guarded(P, f, tr):
    """`a / b`, `a % b` on references to i64 (operator-trait call): both traps of the operation must be excluded on
    every path - divisor != 0, and divisor != -1 or dividend != MIN (a strictly positive divisor excludes both)."""
    if tr["kind"] not in ("DivisionByZero", "RemainderByZero"):
        return False
    args = tr["term"]["args"]
    if len(args) != 2 or any(a[0] == "k" for a in args):
        return False
    fx = FlowCx(P, f)
    at, bt = fx.tags(args[0]), fx.tags(args[1])
    MIN = "const:-9223372036854775808"

    def is_(fact, vt, consts, rels):
        if fact[0] != "cmp":
            return False
        _, op, a, b, _blk = fact
        for x, y, o in ((a, b, op), (b, a, _FLIP.get(op, op))):
            if x == vt and y and all(t in consts for t in y) and o in rels:
                return True
        return False
    zero = lambda fact: is_(fact, bt, {"const:0"}, ("Ne", "Gt", "Lt"))
    ovf = lambda fact: (is_(fact, bt, {"const:-1"}, ("Ne", "Gt")) or is_(fact, bt, {"const:0"}, ("Gt", "Ge"))
                        or is_(fact, at, {MIN}, ("Ne", "Gt")))
    return fx.every_path_has(tr["block"], zero) and fx.every_path_has(tr["block"], ovf)


_FLIP = {"Lt": "Gt", "Gt": "Lt", "Le": "Ge", "Ge": "Le", "Eq": "Eq", "Ne": "Ne"}


MAX_DEPTH_BOUND = 1000


def in_front(f):
    return f.id.startswith(FRONT) or any(("<" + x) in f.id for x in FRONT)


def fkey(f):
    root = f.parent if f.kind == "closure" and f.parent else f.id
    if "::query::" in root and not root.startswith("<"):
        return root.split("::query::", 1)[1]
    return short_id(root)


def run(ctx):
    P = ctx.program()
    # ------------------------------------------------------------------ K1
    entries = common.read_entries(P)
    reach, types, parent = P.reach_rta(entries)
    # constant folding in the optimizer runs on every query too
    n1 = 0
    seen = {}
    fam_traps = set()
    nguard = [0]
    for fid in sorted(reach):
        f = P.fns[fid]
        if f.krate not in ("grafeo_core", "grafeo_engine", "grafeo_adapters", "grafeo_common"):
            continue
        for tr in arith_traps(f, ("i64",)):
            k = tr["kind"]
            if k.startswith("Overflow:Sh"):
                continue
            ops = tr["term"].get("ops") or tr["term"].get("args")
            nonconst = [o for o in ops if o[0] != "k"]
            if k.startswith(("Overflow:Add", "Overflow:Sub", "Overflow:Mul")) and len(nonconst) < 2:
                continue
            n1 += 1
            root = short_id(f.parent) if f.kind == "closure" else short_id(fid)
            if "filter::" in fid:
                fam_traps.add(k.split(":")[-1])
            if (tr["how"] == "assert" and _div_guarded(P, f, tr)) or (tr["how"] == "op-call" and _divcall_guarded(P, f, tr)):
                nguard[0] += 1
                continue
            key = (root, k)
            n = seen[key] = seen.get(key, 0) + 1
            inst = "%s#%s[%d]" % (root, k, n)
            if key in K1_EXCEPT:
                ctx.ob("K1", inst, True, what="exception: " + K1_EXCEPT[key], where=f.loc(tr["line"]))
                continue
            ctx.ob("K1", inst, False,
                   what="%s, reachable from query execution, applies trapping `%s` to data-dependent i64 operands: a query over "
                        "extreme values (or a zero divisor) panics the embedding process" % (short_id(fid), k), where=f.loc(tr["line"]),
                   detail={"path": [short_id(x) for x in P.path_from(parent, fid)][-8:]})
    ctx.floor("K1", len(reach), 1500, "functions reachable from the session entry points")
    ctx.analysed["main"]["k1_candidates"] = n1
    # positive control: the evaluator uses the checked forms
    ea = P.fn("ExpressionPredicate::eval_expr")
    fam_calls = set()
    for fid in P.reach([ea], edge_filter=lambda x, y: P.fns[y].krate == "grafeo_core" and "filter::" in y):
        for bi, t in P.fns[fid].calls():
            fam_calls.add(t["f"] or "")
            for a in t["args"]:
                if a[0] == "fn":
                    fam_calls.add(a[1])
        for b in P.fns[fid].blocks:
            for st in b["s"]:
                rv = st[1]
                if rv[0] in ("use", "cast"):
                    o = rv[1 if rv[0] == "use" else 2]
                    if o[0] == "fn":
                        fam_calls.add(o[1])
    # anchor control (not a verdict): the evaluator still performs each integer operation in some form - a non-trapping
    # method, or a trapping operator that the loop above has judged. If an operation is in neither form the rule
    # has lost its subject and must not pass vacuously.
    TRAP_OF = {"add": "Add", "sub": "Sub", "mul": "Mul", "div": "Div", "rem": "Rem", "neg": "OverflowNeg"}
    for op in ("add", "sub", "mul", "div", "rem", "neg"):
        forms = [pre + op for pre in ("checked_", "wrapping_", "saturating_", "overflowing_")]
        present = any(c.endswith("::" + nm) for c in fam_calls for nm in forms) or TRAP_OF[op] in fam_traps \
            or (op in ("div", "rem") and ("DivisionByZero" in fam_traps or "RemainderByZero" in fam_traps))
        if not present:
            raise CheckerError("C12-K1: no integer `%s` (checked, wrapping or trapping) found in expression evaluation: anchor lost" % op)
        ctx.ob("K1", "ExpressionPredicate#%s" % op, True, what="integer %s is evaluated in a form K1 judges" % op, where=ea.loc())
    ctx.note("K1: %d division/remainder traps discharged by dominating guards on their operands" % nguard[0])

    # ------------------------------------------------------------------ K2/K3
    counts = {}
    sites = {}
    nfront = 0
    ndis = [0]
    for f in P.fns.values():
        if not in_front(f):
            continue
        nfront += 1
        fx = None
        for p in own_panic_sites(f, kinds=("explicit", "unwrap", "expect")):
            if p["kind"] == "explicit" and p["exp"] and _is_debug_assert(p):
                continue
            if p["kind"] in ("unwrap", "expect"):
                fx = fx or FlowCx(P, f)
                if _guarded_unwrap(fx, p):
                    ndis[0] += 1
                    continue
            k = (fkey(f), p["kind"])
            counts[k] = counts.get(k, 0) + 1
            sites.setdefault(k, []).append(f.loc(p["line"]))
    ctx.floor("K3", nfront, 900, "front-end functions analysed")
    ctx.note("K3: %d unwrap/expect sites discharged by a dominating guard on the same value" % ndis[0])
    for k, n in sorted(counts.items()):
        allowed, why = ALLOW.get(k, (0, None))
        ctx.ob("K3", "%s#%s" % k, n <= allowed,
               what="%d %s site(s) in %s (allow-listed: %d): an input-facing stage can panic on query text" % (n, k[1], k[0], allowed)
               if n > allowed else "allow-listed: " + str(why), where=sites[k][0])
    for k in ALLOW:
        if k not in counts:
            ctx.ob("K3", "%s#%s" % k, True, what="allow-listed site no longer present", where="")

    # ------------------------------------------------------------------ K4 byte cursor discipline
    nlex = 0
    ncur = 0
    nwr = 0
    has_cursor = {}
    for lang in ("gql", "cypher", "sparql", "gremlin", "graphql"):
        pre = "grafeo_adapters::query::%s::lexer::" % lang
        fns = [f for f in P.fns.values() if f.id.startswith(pre) or ("<" + pre) in f.id]
        if len(fns) < 5:
            raise CheckerError("C12-K4: lexer module %s not found" % lang)
        nlex += 1
        lexty = pre + "Lexer"
        cursors = set()
        plus_const = []
        for f in fns:
            fx = None
            for bi, t in f.calls():
                c = callee_name(t)
                if c.startswith("core::str::traits::") and c.endswith("::index") and len(t["args"]) >= 2:
                    fx = fx or FlowCx(P, f)
                    tg = fx.tags(t["args"][1])
                    for x in tg:
                        if x.startswith("cell:Lexer."):
                            cursors.add(x.split(".")[-1])
                    if any(x.startswith("bin:Add") for x in tg) and any(x.startswith("cell:Lexer.") for x in tg) \
                            and not any(x.endswith("len_utf8") or x.endswith("str::len") for x in tg if x.startswith("call:")):
                        plus_const.append((f, t["line"]))
        cursors = {c for c in cursors if _field_ty(P, lexty, c) == "usize"}
        for (f, ln) in plus_const:
            ctx.ob("K4", "%s::lexer#slice-at-cursor-plus-const" % lang, False,
                   what="%s slices the source at `cursor + constant`: inside a multi-byte character this panics (byte index is not "
                        "a char boundary)" % short_id(f.id), where=f.loc(ln))
        nw = 0
        for f in fns:
            fx = None
            for bi, b in enumerate(f.blocks):
                if b["cl"]:
                    continue
                for st in b["s"]:
                    pl, rv, ln = st
                    flds = [p for p in pl[1:] if isinstance(p, str) and p.startswith("f:")]
                    if not flds:
                        continue
                    name, owner = flds[-1].split(":", 2)[1:]
                    if owner != lexty or name not in cursors or rv[0] == "dead":
                        continue
                    fx = fx or FlowCx(P, f)
                    tg = fx._tags_rv_public(rv)
                    adds = any(x.startswith("bin:Add") for x in tg)
                    ok = (not adds) or any((x.endswith("len_utf8") or x.endswith("str::len") or x.endswith("String::len"))
                                           for x in tg if x.startswith("call:"))
                    nw += 1
                    ctx.ob("K4", "%s::lexer#%s.%s" % (lang, short_id(f.id).split("::")[-1], name), ok,
                           what="%s advances `%s`, which is used to slice the source string, by a constant / char count instead of "
                                "the character's len_utf8(): non-ASCII input makes the lexer slice inside a UTF-8 sequence and panic"
                                % (short_id(f.id), name), where=f.loc(ln))
        ctx.note("K4 %s: slicing cursors %s, %d cursor writes" % (lang, sorted(cursors), nw))
        ncur += len(cursors)
        nwr += nw
        has_cursor[lang] = bool(cursors)
    # K4c: a lexer whose `advance` does not test the end of input itself (it reads a sentinel there and still moves the
    # cursor) may only be advanced over characters it has looked at: between two advances there is a look at the
    # current character / end of input, or the first advance was preceded by a look at the next character as well.
    from .facts import must_pass as _mp
    for lang in ("gql", "cypher", "sparql", "gremlin", "graphql"):
        pre = "grafeo_adapters::query::%s::lexer::" % lang
        adv = P.fns.get(pre + "Lexer::advance")
        if adv is None or not has_cursor.get(lang):
            continue
        cur_fns = {pre + "Lexer::is_at_end", pre + "Lexer::current_char"}
        peek_fns = {pre + "Lexer::peek_char"}
        # advance() is self-guarded when its cursor write is conditional (on a bound test or on having got a character)
        ax = FlowCx(P, adv)
        wblocks = []
        for bi, b in enumerate(adv.blocks):
            if b["cl"]:
                continue
            for st in b["s"]:
                flds = [p_ for p_ in st[0][1:] if isinstance(p_, str) and p_.startswith("f:")]
                if flds and st[1][0] != "dead" and flds[-1].split(":", 2)[2] == pre + "Lexer" and _field_ty(P, pre + "Lexer", flds[-1].split(":", 2)[1]) == "usize":
                    wblocks.append(bi)
        self_guarded = bool(wblocks) and all(ax.facts_at(bi) for bi in wblocks)
        if self_guarded:
            ctx.ob("K4c", "%s::lexer#advance-self-guarded" % lang, True, what="advance() tests the end of input itself", where=adv.loc())
            continue
        nsite = 0
        for f in P.fns.values():
            if not f.id.startswith(pre) or f.id == adv.id:
                continue
            sites = [bi for bi, t in f.calls() if callee_name(t) == adv.id]
            if not sites:
                continue
            look = {bi for bi, t in f.calls() if callee_name(t) in cur_fns | peek_fns}
            peek = {bi for bi, t in f.calls() if callee_name(t) in peek_fns}
            after = {a: f.blocks[a]["t"].get("t") for a in sites}
            for a in sites:
                nsite += 1
                ok = True
                # paths from the function entry
                if not _mp(f, 0, look, {a}):
                    ok = False
                for a1 in sites:
                    st = after[a1]
                    if st is None:
                        continue
                    if _mp(f, st, look, {a}):
                        continue
                    # a reaches `a` from a1 without looking: allowed only if every way into a1 looked at the next char
                    starts = [0] + [after[x] for x in sites if after[x] is not None]
                    if not all(_mp(f, s0, peek, {a1}) for s0 in starts):
                        ok = False
                k = sum(1 for x in sites if x < a)
                ctx.ob("K4c", "%s::lexer#%s.advance[%d]" % (lang, short_id(f.id).split("::")[-1], k), ok,
                       what="%s advances the cursor over a character it has not looked at (no end-of-input / current-character test since "
                            "the previous advance): at the end of the input the cursor moves past the end of the source string and "
                            "the next slice panics" % short_id(f.id), where=f.loc(f.blocks[a]["t"]["line"]))
        ctx.floor("K4c", nsite, 20, "advance() call sites in the %s lexer (advance is not self-guarded)" % lang)
    ctx.floor("K4", nlex, 5, "lexers")
    ctx.floor("K4", ncur, 4, "lexer fields used to slice the source string")
    ctx.floor("K4", nwr, 8, "writes of slicing cursors")

    # ------------------------------------------------------------------ K5 recursion depth
    # A depth check is a parser method that compares a Parser field with a constant, returns an error on the far
    # side and increments that field. A function that calls one is a guarded entry. Every recursion cycle of the
    # parser must pass through a guarded entry: with the guarded entries removed the call graph must be acyclic.
    for lang in ("gql", "cypher", "sparql", "gremlin", "graphql"):
        pre = "grafeo_adapters::query::%s::parser::" % lang
        ids = {f.id for f in P.fns.values() if f.id.startswith(pre)}
        checks = {fid for fid in ids if _is_depth_check(P, P.fns[fid])}
        guarded = {fid for fid in ids if any(callee_name(t) in checks for bi, t in P.fns[fid].calls())}
        rest = ids - guarded - checks
        sccs = _sccs(rest, P.edges())
        cyc = [s for s in sccs if len(s) > 1 or any(x in P.edges().get(x, ()) for x in s)]
        all_cyc = [s for s in _sccs(ids, P.edges()) if len(s) > 1 or any(x in P.edges().get(x, ()) for x in s)]
        ctx.note("K5 %s: %d recursive components, %d depth checks, %d guarded entries" % (lang, len(all_cyc), len(checks), len(guarded)))
        if not all_cyc:
            ctx.ob("K5", "%s::parser#no-recursion" % lang, True, what="no recursion", where="")
            continue
        if cyc:
            big = max(cyc, key=len)
            ctx.ob("K5", "%s::parser#recursion-depth" % lang, False,
                   what="the %s parser has a recursion cycle that passes no depth check (%d functions, e.g. %s): deeply nested "
                        "input overflows the stack and aborts the process" % (lang, len(big), sorted(short_id(x).split("::")[-1] for x in big if "{closure" not in x)[:4]),
                   where=P.fns[sorted(big)[0]].loc())
        else:
            ctx.ob("K5", "%s::parser#recursion-depth" % lang, True,
                   what="every recursion cycle passes a guarded entry (%s)" % sorted(short_id(x).split("::")[-1] for x in guarded), where="")

    # ------------------------------------------------------------------ K8 loops of lexers and parsers make progress
    from .c12_k8 import run_k8
    run_k8(ctx, P)

    # ------------------------------------------------------------------ K6 floats that become indexes
    # A float converted to usize and used to index a sequence is in range only if the float is: discover every
    # float->usize conversion in query-reachable code, the scalar float fields it is computed from, and require that every
    # producer of such a field (struct / variant literal anywhere in the workspace) either clamps the value, copies it from
    # a field of the same name, or takes it from a parameter. A producer fed from query text (a literal of the AST)
    # without a clamp lets `percentile_disc(x, 1.5)` index past the end of the sorted values.
    idx_fields = {}
    for fid in sorted(reach):
        f = P.fns[fid]
        if f.krate not in ("grafeo_core", "grafeo_engine", "grafeo_adapters", "grafeo_common"):
            continue
        fx = None
        for b in f.blocks:
            if b["cl"]:
                continue
            for st in b["s"]:
                rv = st[1]
                if rv[0] == "cast" and rv[1] == "FloatToInt" and rv[3] in ("usize", "u64", "u32"):
                    fx = fx or FlowCx(P, f)
                    # bounded where it is used (`.min(len - 1)` on the converted value): nothing to ask of the producers
                    dst = st[0][0]
                    if any(callee_name(t2).split("::")[-1] in ("min", "clamp") and
                           any(a[0] in ("m", "c") and a[1] and a[1][0] == dst for a in t2["args"]) for _b2, t2 in f.calls()):
                        continue
                    for tg in fx.tags(rv[2]):
                        if tg.startswith("cell:") and "." in tg:
                            owner, fld = tg[5:].rsplit(".", 1)
                            for a in P.adts.values():
                                for v in a["variants"]:
                                    if v["name"] == owner or a["id"].endswith("::" + owner):
                                        if any(ff[0] == fld and ff[1] in ("f64", "f32") for ff in v["fields"]):
                                            idx_fields.setdefault(fld, []).append(f.loc(st[2]))
    ctx.floor("K6", len(idx_fields), 1, "float fields that reach a float->usize conversion in query-reachable code")
    nprod = 0
    for fld in sorted(idx_fields):
        for f in sorted(P.fns.values(), key=lambda f: f.id):
            if "::tests::" in f.id or f.krate not in ("grafeo_core", "grafeo_engine", "grafeo_adapters"):
                continue
            fx = None
            for b in f.blocks:
                if b["cl"]:
                    continue
                for st in b["s"]:
                    pl, rv, ln = st
                    if not (rv[0] == "agg" and rv[1] == "adt" and len(rv) > 5):
                        continue
                    names = [str(n).strip('"') for n in rv[5]]
                    if fld not in names:
                        continue
                    fx = fx or FlowCx(P, f)
                    tg = fx.tags(rv[4][names.index(fld)])
                    raw = sorted(t for t in tg if t.startswith("cell:") and not t.endswith("." + fld) and t not in ("cell:Some.0",))
                    if not raw:
                        continue      # None, a constant, a parameter or a copy of a field of the same name
                    nprod += 1
                    clamped = any(t.startswith("call:") and t.endswith(("::clamp", "::min", "::max")) for t in tg)
                    ctx.ob("K6", "%s#%s-bounded" % (fkey(f) if in_front(f) else short_id(f.id), fld), clamped,
                           what="%s builds a `%s` from %s without clamping it, and `%s` is converted to an index (%s): a value "
                                "outside its range in the query text panics the executor with an index out of bounds"
                                % (short_id(f.id), fld, raw[:3], fld, idx_fields[fld][0]), where=f.loc(ln))
    ctx.floor("K6", nprod, 2, "producers of index-feeding float fields from raw values")

    # ------------------------------------------------------------------ K5b recursion on plan / AST depth after the parser
    # The parsers bound *nesting*, but operator chains (`a + b + c ...`, `x AND y AND ...`, `.out().out()...`) are built in
    # loops and deepen the AST / plan by one level per element. Every later stage that recurses on that depth needs its
    # own bound (or the chains need one).
    stages = {"gql_translator": "grafeo_engine::query::gql_translator::", "cypher_translator": "grafeo_engine::query::cypher_translator::",
              "sparql_translator": "grafeo_engine::query::sparql_translator::", "gremlin_translator": "grafeo_engine::query::gremlin_translator::",
              "graphql_translator": "grafeo_engine::query::graphql_translator::", "binder": "grafeo_engine::query::binder::",
              "optimizer": "grafeo_engine::query::optimizer::", "planner": "grafeo_engine::query::planner::",
              "planner_rdf": "grafeo_engine::query::planner_rdf::"}
    nesting_only = {"graphql_translator": "GraphQL has no operator chains: selection sets, input values and types only deepen by nesting, "
                                          "which the parser bounds (K5)"}
    for name, pre in stages.items():
        if name in nesting_only:
            ctx.ob("K5b", "%s#recursion-depth" % name, True, what="exception: " + nesting_only[name], where="")
            continue
        ids = {f.id for f in P.fns.values() if f.id.startswith(pre) or ("<" + pre) in f.id}
        if not ids:
            raise CheckerError("C12-K5b: stage %s not found" % name)
        checks = {fid for fid in ids if _is_depth_check(P, P.fns[fid])}
        guarded = {fid for fid in ids if any(callee_name(t) in checks for bi, t in P.fns[fid].calls())}
        rest = ids - guarded - checks
        cyc = [s_ for s_ in _sccs(rest, P.edges()) if len(s_) > 1 or any(x in P.edges().get(x, ()) for x in s_)]
        if not cyc:
            ctx.ob("K5b", "%s#recursion-depth" % name, True, what="no unguarded recursion", where="")
            continue
        big = max(cyc, key=len)
        ctx.ob("K5b", "%s#recursion-depth" % name, False,
               what="%s recurses on the depth of the AST / plan (%d functions, e.g. %s) with no bound; the parsers only bound nesting, "
                    "so a long operator or step chain (thousands of `+`, `AND`, `.out()`) overflows the stack"
                    % (name, len(big), sorted(short_id(x).split("::")[-1] for x in big if "{closure" not in x)[:3]),
               where=P.fns[sorted(big)[0]].loc())

    # ------------------------------------------------------------------ K5c recursion that follows a name, not the tree
    # Recursion over the AST ends because the tree is finite (and K5 bounds its depth). A recursive step whose AST argument
    # was looked up in a table the translator owns (GraphQL fragments by name, ...) follows a *reference*: a cyclic
    # definition (`fragment F on T { ...F }`) then recurses until the stack overflows. Every call edge inside a recursion
    # cycle of a translator must take its AST arguments from its own parameters, unless the cycle passes a depth check.
    nk5c = 0
    for name, pre in stages.items():
        if not name.endswith("_translator"):
            continue
        ids = {f.id for f in P.fns.values() if f.id.startswith(pre) or ("<" + pre) in f.id}
        own_types = {a.split("::")[-1] for a in P.adts if a.startswith(pre)}
        checks = {fid for fid in ids if _is_depth_check(P, P.fns[fid])}
        guarded = {fid for fid in ids if any(callee_name(t) in checks for bi, t in P.fns[fid].calls())}
        E = P.edges()
        cyc = [s_ for s_ in _sccs(ids - guarded - checks, E) if len(s_) > 1 or any(x in E.get(x, ()) for x in s_)]
        for scc in cyc:
            sset = set(scc)
            for fid in sorted(scc):
                f = P.fns[fid]
                fx = None
                k = 0
                for bi, t in f.calls():
                    if not ((set(P.call_targets(t)) | {callee_name(t)}) & sset):
                        continue
                    nk5c += 1
                    fx = fx or FlowCx(P, f)
                    bad = None
                    for i, a in enumerate(t["args"][1:], 1):
                        aty = f.types[t["aty"][i]] if i < len(t.get("aty", [])) else ""
                        if "::ast::" not in aty:
                            continue
                        tg = fx.tags(a)
                        hit = [x for x in tg if x.startswith("cell:") and x[5:].split(".")[0] in own_types]
                        if hit:
                            bad = (i, hit[0][5:])
                    ctx.ob("K5c", "%s#%s->%s[%d]" % (name, fkey(f).split("::")[-1], callee_name(t).split("::")[-1], k), bad is None,
                           what="%s makes a recursive call whose AST argument comes from the translator's own table %s (a lookup by "
                                "name), not from the node it was given: a definition that refers to itself recurses until the stack "
                                "overflows and the process aborts" % (short_id(f.id), bad[1] if bad else ""), where=f.loc(t["line"]))
                    k += 1
    ctx.floor("K5c", nk5c, 20, "call edges inside recursion cycles of the translators")

    # ------------------------------------------------------------------ K7 FFI
    ffi = [f for f in P.fns.values() if f.krate == "grafeo_c" and f.abi_c and f.kind != "closure"]
    ctx.floor("K7", len(ffi), 40, "extern \"C\" functions in bindings/c")
    engine_reach = 0
    unprotected = []
    for f in ffi:
        R = P.reach([f])
        if not any(P.fns[x].krate in ("grafeo_engine", "grafeo_core", "grafeo_adapters") for x in R):
            continue
        engine_reach += 1
        prot = any(callee_name(t).endswith("catch_unwind") for fid in R if P.fns[fid].krate == "grafeo_c" for bi, t in P.fns[fid].calls())
        if not prot:
            unprotected.append(short_id(f.id))
    # K7 is a hardening inventory, not a verdict: without a panic inside the engine nothing fails, so no failing input
    # can be shown for it. It is reported as information only.
    ctx.ob("K7", "bindings-c#catch_unwind", not unprotected, info=True,
           what="%d of %d extern \"C\" entry points that reach the engine do not run it under catch_unwind: a panic unwinds across "
                "the FFI boundary (abort / undefined behaviour in the host)" % (len(unprotected), engine_reach),
           where=ffi[0].file, detail={"functions": sorted(unprotected)})


def _is_debug_assert(p):
    return False


def _guarded_unwrap(fx, p):
    """an unwrap / expect whose receiver is shown non-empty by a dominating test on the same variable or field:
    `x.is_some()`, a `Some` arm on x, `!x.is_empty()`, or a length comparison of the collection it was taken from"""
    t = p["term"]
    if not t["args"]:
        return False
    recv = fx.tags(t["args"][0])
    roots = {x for x in recv if x.startswith(("var:", "cell:")) and not x.startswith(("cell:Some.", "cell:Ok."))}
    if not roots:
        return False
    for f in fx.facts_at(p["block"]):
        if f[0] == "call":
            nm = f[1].split("::")[-1]
            args = set()
            for a in f[3]:
                args |= a
            if not (args & roots):
                continue
            if nm in ("is_some", "is_ok") and f[2] is True:
                return True
            if nm in ("is_empty", "is_none", "is_err") and f[2] is False:
                return True
        elif f[0] == "variant" and f[2] in ("Some", "Ok") and (f[3] & roots):
            return True
        elif f[0] == "cmp":
            both = f[2] | f[3]
            if (both & roots) and any(x.startswith("call:") and x.split("::")[-1] == "len" for x in both):
                consts = [x for x in both if re.match(r"^const:\d+$", x)]
                if f[1] in ("Eq", "Ge", "Gt", "Ne") and consts:
                    if f[1] == "Eq" and "const:0" in consts:
                        continue
                    return True
    return False


def _field_ty(P, adt, name):
    a = P.adts.get(adt)
    if not a:
        return None
    for v in a["variants"]:
        for f in v["fields"]:
            if f[0] == name:
                return f[1]
    return None


def _sccs(nodes, edges):
    index = {}
    low = {}
    stack = []
    on = set()
    out = []
    counter = [0]
    import sys
    sys.setrecursionlimit(10000)

    def strong(v):
        index[v] = low[v] = counter[0]
        counter[0] += 1
        stack.append(v)
        on.add(v)
        for w in edges.get(v, ()):
            if w not in nodes:
                continue
            if w not in index:
                strong(w)
                low[v] = min(low[v], low[w])
            elif w in on:
                low[v] = min(low[v], index[w])
        if low[v] == index[v]:
            comp = set()
            while True:
                w = stack.pop()
                on.discard(w)
                comp.add(w)
                if w == v:
                    break
            out.append(comp)
    for v in sorted(nodes):
        if v not in index:
            strong(v)
    return out


def _is_depth_check(P, f):
    """compares a struct field with an integer constant, builds an error, and increments the same field"""
    written = set()
    for b in f.blocks:
        if b["cl"]:
            continue
        for st in b["s"]:
            pl, rv, ln = st
            flds = [p for p in pl[1:] if isinstance(p, str) and p.startswith("f:")]
            if flds and rv[0] != "dead":
                written.add(flds[-1].split(":", 2)[1])
    if not written:
        return False
    fx = FlowCx(P, f)
    cmp_ok = False
    for b in f.blocks:
        if b["cl"]:
            continue
        for st in b["s"]:
            rv = st[1]
            if rv[0] == "bin" and rv[1] in ("Gt", "Ge", "Lt", "Le"):
                tg = fx.tags(rv[2]) | fx.tags(rv[3])
                fields = {x.split(".")[-1] for x in tg if x.startswith("cell:") and "Parser." in x}
                consts = [int(x[6:]) for x in tg if re.match(r"^const:\d+$", x)]
                # the bound must be one the stack can take: the triage runs overflowed a default thread stack between one
                # and five thousand nested levels (recursion_observed.txt), so a limit in the thousands is no limit
                if fields & written and consts and max(consts) <= MAX_DEPTH_BOUND:
                    cmp_ok = True
    errs = any(st[1][0] == "agg" and st[1][1] == "adt" and st[1][2] == "core::result::Result" and st[1][3] == "Err"
               for b in f.blocks if not b["cl"] for st in b["s"])
    return cmp_ok and errs
