"""E2 core: load the JSON MIR facts written by grafeo-facts and provide the generic analyses the
rules use (call graph with virtual fan-out, reachability, local value provenance, state-cell
accesses, dominators / post-dominators / control dependence, lock scopes).

Python only *queries* facts that rustc produced. It never parses Rust and never runs grafeo code.
"""
import json, os, re, sys
from collections import defaultdict, deque

# ----------------------------------------------------------------------------------------------
# data model


class Fn:
    __slots__ = ("id", "kind", "file", "line", "parent", "impl_self", "impl_trait", "trait_item", "vis",
                 "abi_c", "no_mangle", "argc", "locals", "dbg", "idom", "blocks", "krate", "types", "promoted",
                 "_defs", "_calls", "_pdom", "_succ", "_pred", "_names", "_cd")

    def __init__(self, d, krate, types):
        for k in ("id", "kind", "file", "line", "parent", "impl_self", "impl_trait", "trait_item", "vis",
                  "abi_c", "no_mangle", "argc", "locals", "dbg", "idom", "blocks"):
            setattr(self, k, d[k])
        self.promoted = d.get("promoted", [])
        self.krate = krate
        self.types = types
        self._defs = None
        self._calls = None
        self._pdom = None
        self._succ = None
        self._pred = None
        self._names = None
        self._cd = None

    def __repr__(self):
        return "Fn(%s)" % self.id

    @property
    def short(self):
        return short_id(self.id)

    def loc(self, line=None):
        return "%s:%s" % (self.file, line if line else self.line)

    def local_ty(self, l):
        return self.types[self.locals[l]]

    # ---- CFG (normal edges only; cleanup blocks ignored) ----
    def succ(self):
        if self._succ is None:
            S = []
            for b in self.blocks:
                t = b["t"]
                k = t["k"]
                if b["cl"]:
                    S.append([])
                elif k == "goto":
                    S.append([t["t"]])
                elif k == "sw":
                    S.append(list(dict.fromkeys(t["t"])))
                elif k in ("call", "drop", "assert"):
                    S.append([t["t"]] if t.get("t") is not None else [])
                else:
                    S.append([])
            self._succ = S
            P = [[] for _ in S]
            for i, ss in enumerate(S):
                for s in ss:
                    P[s].append(i)
            self._pred = P
        return self._succ

    def pred(self):
        self.succ()
        return self._pred

    def calls(self):
        """list of (block index, call terminator dict)"""
        if self._calls is None:
            self._calls = [(i, b["t"]) for i, b in enumerate(self.blocks) if b["t"]["k"] == "call" and not b["cl"]]
        return self._calls

    def dominates(self, a, b):
        """block a dominates block b (rustc's dominator tree)"""
        while b != -1:
            if a == b:
                return True
            nb = self.idom[b]
            if nb == b:
                break
            b = nb
        return False

    def reachable_blocks(self, start, avoid=()):
        seen = set()
        st = [start]
        S = self.succ()
        while st:
            x = st.pop()
            if x in seen or x in avoid:
                continue
            seen.add(x)
            st.extend(S[x])
        return seen

    def exits(self):
        return [i for i, b in enumerate(self.blocks) if b["t"]["k"] == "ret" and not b["cl"]]

    def defs(self):
        """local -> list of (block, stmt index or 'T' for call dst, rvalue-or-call)"""
        if self._defs is None:
            D = defaultdict(list)
            for bi, b in enumerate(self.blocks):
                if b["cl"]:
                    continue
                for si, st in enumerate(b["s"]):
                    pl, rv, ln = st
                    if rv[0] == "dead":
                        continue
                    D[pl[0]].append((bi, si, pl, rv, ln))
                t = b["t"]
                if t["k"] == "call":
                    D[t["dst"][0]].append((bi, "T", t["dst"], ["call", t], t["line"]))
            self._defs = D
        return self._defs

    def names(self):
        if self._names is None:
            N = {}
            for nm, pl in self.dbg:
                if len(pl) == 1:
                    N.setdefault(pl[0], nm)
            self._names = N
        return self._names


def short_id(i):
    """human-readable: drop module paths"""
    def last2(p):
        parts = p.split("::")
        return "::".join(parts[-2:]) if len(parts) >= 2 else p
    m = re.match(r"^<(.+?) as (.+?)>::(.+)$", i)
    if m:
        s = m.group(1).split("<")[0].split("::")[-1]
        t = m.group(2).split("<")[0].split("::")[-1]
        return "<%s as %s>::%s" % (s, t, m.group(3))
    parts = i.split("::")
    # keep trailing closure markers
    n = 2
    while n < len(parts) and parts[-(n - 1)].startswith("{closure"):
        n += 1
    return "::".join(parts[-n:])


class Program:
    def __init__(self, facts_dir, crates=None):
        self.fns = {}
        self.adts = {}
        self.impls = []
        self.traits = {}
        self.crates = []
        self.files = []
        for fn in sorted(os.listdir(facts_dir)):
            if not fn.endswith(".json"):
                continue
            d = json.load(open(os.path.join(facts_dir, fn)))
            if crates and d["crate"] not in crates:
                continue
            self.files.append(fn)
            self.crates.append(d["crate"])
            types = d["types"]
            for f in d["fns"]:
                F = Fn(f, d["crate"], types)
                self.fns[F.id] = F
            for a in d["adts"]:
                a["krate"] = d["crate"]
                self.adts[a["id"]] = a
            for im in d["impls"]:
                im["krate"] = d["crate"]
                self.impls.append(im)
            for t in d["traits"]:
                self.traits[t["id"]] = t
        # trait item -> impl fns
        self.trait_impls = defaultdict(list)
        for im in self.impls:
            if im["trait"]:
                for ti, fi in im["items"]:
                    if ti:
                        self.trait_impls[ti].append(fi)
        # default bodies count as an impl of their own item
        for f in self.fns.values():
            if f.trait_item and f.trait_item == f.id:
                self.trait_impls[f.id].append(f.id)
        self.children = defaultdict(list)  # closures by parent fn
        for f in self.fns.values():
            if f.kind == "closure" and f.parent:
                self.children[f.parent].append(f.id)
        self._edges = None
        self._redges = None
        self._suffix = None

    # ---- lookup ----
    def fn(self, suffix, required=True):
        """unique function whose id == suffix or ends with '::'+suffix"""
        r = self.find(suffix)
        if len(r) == 1:
            return r[0]
        if not r and not required:
            return None
        raise CheckerError("anchor %r resolves to %d functions %s" % (suffix, len(r), [x.id for x in r][:5]))

    def find(self, suffix):
        if suffix in self.fns:
            return [self.fns[suffix]]
        if self._suffix is None:
            S = defaultdict(list)
            for i in self.fns:
                if i.startswith("<"):
                    continue
                parts = i.split("::")
                for n in range(1, min(len(parts), 5) + 1):
                    S["::".join(parts[-n:])].append(i)
            self._suffix = S
        return [self.fns[i] for i in self._suffix.get(suffix, [])]

    def method(self, self_name, trait_name, method, required=True):
        """trait-impl method `<..::self_name as ..::trait_name>::method`"""
        out = []
        for f in self.fns.values():
            if f.kind == "closure" or not f.impl_trait or not f.impl_self:
                continue
            sn = f.impl_self.split("<")[0]
            self_ok = (_last(f.impl_self) == self_name) if "::" not in self_name else (sn == self_name or sn.endswith("::" + self_name))
            if f.id.endswith("::" + method) and self_ok and _last(f.impl_trait) == trait_name:
                out.append(f)
        if len(out) == 1:
            return out[0]
        if not out and not required:
            return None
        raise CheckerError("anchor <%s as %s>::%s resolves to %d functions" % (self_name, trait_name, method, len(out)))

    def methods_of(self, self_name):
        return [f for f in self.fns.values() if f.impl_self and _last(f.impl_self) == self_name and f.kind != "closure"]

    def adt(self, suffix):
        r = [a for i, a in self.adts.items() if i == suffix or i.endswith("::" + suffix)]
        if len(r) != 1:
            raise CheckerError("type anchor %r resolves to %d types" % (suffix, len(r)))
        return r[0]

    def family(self, f):
        """f plus its (transitive) closures"""
        out = [f]
        st = [f.id]
        while st:
            x = st.pop()
            for c in self.children.get(x, []):
                out.append(self.fns[c])
                st.append(c)
        return out

    # ---- call graph ----
    def call_targets(self, t):
        """resolved workspace targets of one call terminator (fan-out for virtual/unresolved)"""
        rk = t["rk"]
        out = []
        if rk in ("item", "closure_once", "reify", "vtshim", "fnptr") and t["r"]:
            if t["r"] in self.fns:
                out.append(t["r"])
            elif t["f"] in self.trait_impls and t["r"] == t["f"]:
                out.extend(self.trait_impls[t["f"]])
        elif rk in ("virtual", "unresolved"):
            key = t["f"]
            out.extend(x for x in self.trait_impls.get(key, []) if x in self.fns)
        return out

    def edges(self):
        if self._edges is None:
            E = defaultdict(set)
            for f in self.fns.values():
                e = E[f.id]
                for bi, t in f.calls():
                    for tg in self.call_targets(t):
                        e.add(tg)
                    # fn items / closures passed as arguments
                    for a in t["args"]:
                        if a[0] == "fn" and a[1] in self.fns:
                            e.add(a[1])
                for c in self.children.get(f.id, []):
                    e.add(c)
                # fn items mentioned in statements (e.g. `.map(Self::foo)` reified)
                for b in f.blocks:
                    if b["cl"]:
                        continue
                    for st in b["s"]:
                        rv = st[1]
                        if rv[0] in ("use", "cast") and rv[1 if rv[0] == "use" else 2][0] == "fn":
                            p = rv[1 if rv[0] == "use" else 2][1]
                            if p in self.fns:
                                e.add(p)
            self._edges = E
            R = defaultdict(set)
            for a, bs in E.items():
                for b in bs:
                    R[b].add(a)
            self._redges = R
        return self._edges

    def redges(self):
        self.edges()
        return self._redges

    def reach(self, roots, stop=None, edge_filter=None):
        """set of fn ids reachable from roots (ids or Fn)"""
        E = self.edges()
        seen = set()
        st = [r.id if isinstance(r, Fn) else r for r in roots]
        while st:
            x = st.pop()
            if x in seen:
                continue
            seen.add(x)
            if stop and stop(x):
                continue
            for y in E.get(x, ()):
                if y not in seen and (edge_filter is None or edge_filter(x, y)):
                    st.append(y)
        return seen

    def constructed_types(self, fn):
        """ADT ids built by Aggregate statements in fn"""
        c = getattr(self, "_ctypes", None)
        if c is None:
            c = self._ctypes = {}
        r = c.get(fn.id)
        if r is None:
            r = set()
            for b in fn.blocks:
                if b["cl"]:
                    continue
                for st in b["s"]:
                    rv = st[1]
                    if rv[0] == "agg" and rv[1] == "adt":
                        r.add(rv[2])
            c[fn.id] = r
        return r

    def reach_rta(self, roots, stop=None, edge_filter=None):
        """reachability with rapid type analysis: a virtual / unresolved trait call is linked only to
        implementations whose Self type is constructed somewhere in the code reached so far.
        returns (reachable fn ids, instantiated type ids, parent map for path reconstruction)"""
        roots = [r.id if isinstance(r, Fn) else r for r in roots]
        reach = set()
        types = set()
        parent = {}
        pending_virtual = defaultdict(list)  # impl self type -> [(caller, impl fn id)]
        work = list(roots)
        for r in roots:
            parent[r] = None

        def add(caller, y):
            if y not in parent:
                parent[y] = caller
            if y not in reach:
                work.append(y)

        while work:
            x = work.pop()
            if x in reach:
                continue
            reach.add(x)
            f = self.fns[x]
            if stop and stop(x):
                continue
            newt = self.constructed_types(f) - types
            for t in newt:
                types.add(t)
                for (caller, y) in pending_virtual.pop(t, []):
                    add(caller, y)
            for bi, t in f.calls():
                rk = t["rk"]
                if rk in ("virtual", "unresolved"):
                    for y in self.trait_impls.get(t["f"], []):
                        if y not in self.fns:
                            continue
                        if edge_filter and not edge_filter(x, y):
                            continue
                        st = self.fns[y].impl_self
                        if st is None or st in types or st not in self.adts:
                            add(x, y)
                        else:
                            pending_virtual[st].append((x, y))
                else:
                    for y in self.call_targets(t):
                        if edge_filter and not edge_filter(x, y):
                            continue
                        add(x, y)
                for a in t["args"]:
                    if a[0] == "fn" and a[1] in self.fns:
                        add(x, a[1])
            for c in self.children.get(x, []):
                add(x, c)
            for b in f.blocks:
                if b["cl"]:
                    continue
                for st in b["s"]:
                    rv = st[1]
                    if rv[0] in ("use", "cast"):
                        o = rv[1 if rv[0] == "use" else 2]
                        if o[0] == "fn" and o[1] in self.fns:
                            add(x, o[1])
        return reach, types, parent

    @staticmethod
    def path_from(parent, goal):
        p = []
        x = goal
        while x is not None:
            p.append(x)
            x = parent.get(x)
        return p[::-1]

    def path(self, roots, goal_pred, stop=None):
        """shortest call path from any root to a fn satisfying goal_pred; list of ids or None"""
        E = self.edges()
        q = deque()
        prev = {}
        for r in roots:
            r = r.id if isinstance(r, Fn) else r
            if r not in prev:
                prev[r] = None
                q.append(r)
        while q:
            x = q.popleft()
            if goal_pred(x):
                p = []
                while x is not None:
                    p.append(x)
                    x = prev[x]
                return p[::-1]
            if stop and stop(x):
                continue
            for y in sorted(E.get(x, ())):
                if y not in prev:
                    prev[y] = x
                    q.append(y)
        return None

    def callers_closure(self, targets):
        """all fns from which some target is reachable"""
        R = self.redges()
        seen = set()
        st = list(targets)
        while st:
            x = st.pop()
            if x in seen:
                continue
            seen.add(x)
            st.extend(R.get(x, ()))
        return seen


def _last(p):
    return p.split("<")[0].split("::")[-1]


class CheckerError(Exception):
    """a broken checker (missing anchor, floor not met) - exit 2, never a VIOLATION"""


# ----------------------------------------------------------------------------------------------
# places / operands


def place_fields(pl):
    """[(name, owner)] of the field projections in a place, outermost first"""
    out = []
    for p in pl[1:]:
        if isinstance(p, str) and p.startswith("f:"):
            _, name, owner = p.split(":", 2)
            out.append((name, owner))
    return out


def op_place(op):
    return op[1] if op[0] in ("c", "m") else None


def op_local(op):
    p = op_place(op)
    return p[0] if p else None


TRANSPARENT_CALLS = (
    "core::ops::deref::Deref::deref", "core::ops::deref::DerefMut::deref_mut",
    "core::convert::AsRef::as_ref", "core::convert::AsMut::as_mut",
    "core::borrow::Borrow::borrow", "core::borrow::BorrowMut::borrow_mut",
    "core::clone::Clone::clone", "core::option::Option::as_ref", "core::option::Option::as_mut",
    "core::option::Option::unwrap", "core::option::Option::expect", "core::result::Result::unwrap",
    "core::option::Option::as_deref", "core::option::Option::copied", "core::option::Option::cloned",
    "core::convert::Into::into", "core::convert::From::from",
    "alloc::sync::Arc::clone", "core::option::Option::unwrap_or_default",
)


class Trace:
    """flow-insensitive backward value provenance inside one function.
    steps: list of tuples describing how the value was obtained, from the use site back to a root."""

    def __init__(self, fn, P=None):
        self.fn = fn
        self.P = P

    def origin(self, op, depth=0, seen=None):
        """returns list of 'roots'; each root is a dict:
           {'kind': 'param'|'field'|'call'|'const'|'agg'|'fn'|'bin'|'unknown', ...,'via': [steps]}"""
        if seen is None:
            seen = set()
        if op[0] == "k":
            return [{"kind": "const", "val": op[1], "ty": op[2], "via": []}]
        if op[0] == "fn":
            return [{"kind": "fn", "fn": op[1], "via": []}]
        return self.place_origin(op[1], depth, seen)

    def place_origin(self, pl, depth=0, seen=None):
        if seen is None:
            seen = set()
        fn = self.fn
        fields = place_fields(pl)
        l = pl[0]
        key = (l, tuple(pl[1:]))
        if key in seen or depth > 40:
            return [{"kind": "unknown", "why": "cycle", "via": []}]
        seen = seen | {key}
        out = []
        if fields:
            # the value is (part of) a field of something: report the field access itself as a root,
            # with the base traced further
            base = self.place_origin([l], depth + 1, seen)
            return [{"kind": "field", "fields": fields, "base": base, "place": pl, "via": []}]
        if 1 <= l <= fn.argc and not fn.defs().get(l):
            return [{"kind": "param", "n": l, "name": fn.names().get(l), "via": []}]
        ds = fn.defs().get(l, [])
        if not ds:
            if 1 <= l <= fn.argc:
                return [{"kind": "param", "n": l, "name": fn.names().get(l), "via": []}]
            return [{"kind": "unknown", "why": "nodef", "via": []}]
        # ignore partial (field) assignments into the local when a whole assignment exists
        whole = [d for d in ds if len(d[2]) == 1]
        use = whole if whole else ds
        for (bi, si, dpl, rv, ln) in use:
            k = rv[0]
            if k == "use":
                for r in self.origin(rv[1], depth + 1, seen):
                    out.append(r)
            elif k == "ref" or k == "raw":
                for r in self.place_origin(rv[2], depth + 1, seen):
                    r = dict(r)
                    r["via"] = r["via"] + ["ref"]
                    out.append(r)
            elif k == "cast":
                for r in self.origin(rv[2], depth + 1, seen):
                    r = dict(r)
                    r["via"] = r["via"] + ["cast"]
                    out.append(r)
            elif k == "call":
                t = rv[1]
                f = t["f"] or ""
                if f in TRANSPARENT_CALLS and t["args"]:
                    for r in self.origin(t["args"][0], depth + 1, seen):
                        r = dict(r)
                        r["via"] = r["via"] + [f.split("::")[-1]]
                        out.append(r)
                else:
                    out.append({"kind": "call", "call": t, "block": bi, "via": []})
            elif k == "agg":
                out.append({"kind": "agg", "agg": rv, "block": bi, "line": ln, "via": []})
            elif k == "bin":
                out.append({"kind": "bin", "op": rv[1], "a": rv[2], "b": rv[3], "block": bi, "via": []})
            elif k == "un":
                out.append({"kind": "un", "op": rv[1], "a": rv[2], "block": bi, "via": []})
            elif k == "discr":
                out.append({"kind": "discr", "place": rv[1], "enum": rv[2], "block": bi, "via": []})
            else:
                out.append({"kind": "unknown", "why": k, "via": []})
        return out

    def root_fields(self, op):
        """all field-root descriptors (name, owner) lists the operand may come from"""
        res = []
        for r in self.origin(op):
            if r["kind"] == "field":
                res.append(r["fields"])
        return res


# ----------------------------------------------------------------------------------------------
# state cells


LOCK_API = {
    # callee path -> (mode, kind)
    "lock_api::rwlock::RwLock::read": ("R", "rwlock"),
    "lock_api::rwlock::RwLock::read_recursive": ("R", "rwlock"),
    "lock_api::rwlock::RwLock::try_read": ("R", "rwlock"),
    "lock_api::rwlock::RwLock::upgradable_read": ("R", "rwlock"),
    "lock_api::rwlock::RwLock::write": ("W", "rwlock"),
    "lock_api::rwlock::RwLock::try_write": ("W", "rwlock"),
    "lock_api::mutex::Mutex::lock": ("W", "mutex"),
    "lock_api::mutex::Mutex::try_lock": ("W", "mutex"),
    "std::sync::poison::mutex::Mutex::lock": ("W", "mutex"),
    "std::sync::poison::rwlock::RwLock::read": ("R", "rwlock"),
    "std::sync::poison::rwlock::RwLock::write": ("W", "rwlock"),
    "std::sync::Mutex::lock": ("W", "mutex"),
    "std::sync::RwLock::read": ("R", "rwlock"),
    "std::sync::RwLock::write": ("W", "rwlock"),
    "lock_api::rwlock::RwLock::get_mut": ("W", "nolock"),
    "lock_api::mutex::Mutex::get_mut": ("W", "nolock"),
}

ATOMIC_RE = re.compile(r"^core::sync::atomic::Atomic(?:<[^>]*>)?(?:U64|U32|Usize|Bool|I64|U8|I32|U16)?::(\w+)$")
ATOMIC_KIND = {
    "load": "R", "store": "W", "swap": "RMW", "fetch_add": "RMW", "fetch_sub": "RMW", "fetch_max": "RMW",
    "fetch_min": "RMW", "fetch_or": "RMW", "fetch_and": "RMW", "fetch_xor": "RMW", "fetch_update": "RMW",
    "compare_exchange": "RMW", "compare_exchange_weak": "RMW", "fetch_nand": "RMW", "into_inner": "R",
    "get_mut": "W",
}

# methods of std / hashbrown / dashmap / indexmap collections that mutate their receiver
COLLECTION_MUT = {
    "insert": "add", "push": "add", "push_back": "add", "push_front": "add", "extend": "add",
    "entry": "add", "or_insert": "add", "or_insert_with": "add", "or_default": "add", "append": "add",
    "remove": "del", "remove_entry": "del", "retain": "del", "clear": "del", "pop": "del", "truncate": "del",
    "drain": "del", "swap_remove": "del", "take": "del", "pop_front": "del", "pop_back": "del",
    "get_mut": "mut", "iter_mut": "mut", "values_mut": "mut", "get_or_insert_with": "add",
    "resize": "mut", "sort": "mut", "sort_by": "mut", "dedup": "mut", "reserve": "none",
    "shrink_to_fit": "none", "get_or_insert": "add", "replace": "mut", "set": "mut",
}


def atomic_kind(callee):
    m = ATOMIC_RE.match(callee or "")
    if m:
        return ATOMIC_KIND.get(m.group(1))
    return None


# ----------------------------------------------------------------------------------------------
# dominance helpers on the normal-edge CFG


def postdominators(fn):
    """immediate post-dominator sets computed on normal edges with a virtual exit joining all
    return / diverging blocks. returns dict block -> set of post-dominating blocks (incl. itself)."""
    if fn._pdom is not None:
        return fn._pdom
    S = fn.succ()
    n = len(S)
    live = [i for i in range(n) if not fn.blocks[i]["cl"]]
    EXIT = n
    succ = {i: (list(S[i]) if S[i] else [EXIT]) for i in live}
    succ[EXIT] = []
    allb = set(live) | {EXIT}
    pd = {i: set(allb) for i in live}
    pd[EXIT] = {EXIT}
    changed = True
    order = sorted(live, reverse=True)
    while changed:
        changed = False
        for i in order:
            ss = succ[i]
            new = set(allb)
            for s in ss:
                new &= pd[s]
            new = new | {i}
            if new != pd[i]:
                pd[i] = new
                changed = True
    fn._pdom = pd
    return pd


def control_deps(fn):
    """block -> set of (branch block, successor taken) it is control dependent on (transitively closed
    one level is enough for the rules: we expose direct deps and a helper for the transitive closure)."""
    if fn._cd is not None:
        return fn._cd
    pd = postdominators(fn)
    S = fn.succ()
    cd = defaultdict(set)
    for a in range(len(S)):
        if fn.blocks[a]["cl"] or len(S[a]) < 2:
            continue
        for s in S[a]:
            # blocks that post-dominate s but do not strictly post-dominate a
            for b in pd[s]:
                if b == len(S):
                    continue
                if b == a or b not in pd[a]:
                    cd[b].add((a, s))
                elif b in pd[a] and b == a:
                    cd[b].add((a, s))
    fn._cd = cd
    return cd


def control_deps_closure(fn, b):
    cd = control_deps(fn)
    out = set()
    st = [b]
    seenb = set()
    while st:
        x = st.pop()
        if x in seenb:
            continue
        seenb.add(x)
        for (a, s) in cd.get(x, ()):
            if (a, s) not in out:
                out.add((a, s))
                st.append(a)
    return out


def must_pass(fn, start, targets, goals):
    """True iff every normal path from block `start` to any block in `goals` passes through a block
    in `targets` (targets checked before goals: a goal block that is itself a target counts)."""
    S = fn.succ()
    seen = set()
    st = [start]
    while st:
        x = st.pop()
        if x in seen:
            continue
        seen.add(x)
        if x in targets:
            continue
        if x in goals:
            return False
        st.extend(S[x])
    return True


def must_pass_cp(fn, start, targets, goals, max_states=20000):
    """like must_pass, but path-sensitive for bool temporaries that are assigned constants and switched on
    later (`matches!`, `&&`, `||` lowering): a switch on a local whose constant value is known on the
    current path only follows the matching successor."""
    S = fn.succ()
    seen = set()
    st = [(start, frozenset())]
    n = 0
    while st:
        b, env = st.pop()
        if (b, env) in seen:
            continue
        seen.add((b, env))
        n += 1
        if n > max_states:
            return must_pass(fn, start, targets, goals)
        if b in targets:
            continue
        if b in goals:
            return False
        e = dict(env)
        for stt in fn.blocks[b]["s"]:
            pl, rv, ln = stt
            if len(pl) == 1 and rv[0] != "dead":
                if rv[0] == "use" and rv[1][0] == "k" and str(rv[1][1]) in ("0", "1", "true", "false"):
                    e[pl[0]] = str(rv[1][1]) in ("1", "true")
                else:
                    e.pop(pl[0], None)
        t = fn.blocks[b]["t"]
        if t["k"] == "call" and len(t["dst"]) == 1:
            e.pop(t["dst"][0], None)
        nxt = S[b]
        if t["k"] == "sw" and t["dty"] == "bool":
            p = t["d"][1] if t["d"][0] in ("c", "m") else None
            if p is not None and len(p) == 1 and p[0] in e:
                val = e[p[0]]
                # targets: v=["0"] -> t[0] is the false edge, t[-1] the true (otherwise) edge
                if t["v"] == ["0"]:
                    nxt = [t["t"][-1]] if val else [t["t"][0]]
        fe = frozenset(e.items())
        for x in nxt:
            st.append((x, fe))
    return True
