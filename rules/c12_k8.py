"""C12-K8 - every loop of a lexer / parser makes progress (the "loops forever" clause of C12).

Rule.  Per language and per stage (lexer, parser) the *cursor* is discovered (lexer: the usize fields that slice the
source, and iterator fields; parser: the fields of type Token, or the usize field that indexes the token vector).  A
*primitive* is a function that moves the cursor itself (writes cursor+something / replaces the current token / pulls
the character iterator).  A function *always consumes* (MC) when no path from its entry to a normal return avoids
every call of a primitive or of another MC function; returns of an error (an `Err(..)`, a `?` residual, a `None`
handed back) are exempt, because callers leave their loops on them - and that is checked at the call sites: a call of
a function that is MC only on its success paths counts as progress only if the error side of the result cannot reach
the loop header again without other progress.  Every cycle of every natural loop of the stage must pass through a
progress block (a primitive, an MC call, or `Iterator::next` - finite iteration).  A cycle that does not is an input
on which the loop spins for ever (and, if it pushes into a vector, exhausts memory).

Not decided: that a primitive actually moves at the end of the input (advance() at EOF stays at EOF; loops whose only
exit test ignores EOF are a value question).
"""
from .facts import short_id, CheckerError
from .flow import FlowCx, callee_name

LANGS = ("gql", "cypher", "sparql", "gremlin", "graphql")
ITER_NEXT = ("core::iter::traits::iterator::Iterator", "core::iter::traits::double_ended::DoubleEndedIterator")
# (lang, stage, function, loop ordinal) -> reason: cycles that are infeasible for a reason the path-insensitive rule cannot see
_COMMENT = ("the comment-skipping inner loop is entered only when the current character has just been seen to be the comment "
            "introducer ('#' or '/'), which is not a line end and not the end of input, so its first iteration advances; the path "
            "'inner loop exits at once' does not exist")
EXCEPT = {
    ("graphql", "lexer", "Lexer::skip_whitespace_and_comments", 0): _COMMENT,
    ("cypher", "lexer", "Lexer::skip_whitespace_and_comments", 0): _COMMENT,
    ("sparql", "lexer", "Lexer::skip_whitespace_and_comments", 0): _COMMENT,
}
ERR_VALUE = {"core::option::Option": "0", "core::result::Result": "1", "core::ops::control_flow::ControlFlow": "1"}


def natural_loops(f):
    S = f.succ()
    Pd = f.pred()
    heads = {}
    for a, ss in enumerate(S):
        for h in ss:
            if f.dominates(h, a):
                heads.setdefault(h, set()).add(a)
    out = []
    for h in sorted(heads):
        body = {h}
        st = list(heads[h])
        while st:
            x = st.pop()
            if x in body:
                continue
            body.add(x)
            st.extend(Pd[x])
        out.append((h, body))
    return out


def error_blocks(f):
    """blocks that lie on error returns only: an Err(..) is built, a `?` residual is converted, or None goes to the return place"""
    E = set()
    for bi, b in enumerate(f.blocks):
        if b["cl"]:
            continue
        for pl, rv, ln in b["s"]:
            if rv[0] == "agg" and rv[1] == "adt":
                if rv[2].endswith("result::Result") and rv[3] == "Err":
                    E.add(bi)
                if rv[2].endswith("option::Option") and rv[3] == "None" and pl == [0]:
                    E.add(bi)
        t = b["t"]
        if t["k"] == "call" and callee_name(t).endswith("FromResidual::from_residual") or \
                (t["k"] == "call" and (t.get("f") or "").endswith("FromResidual::from_residual")):
            E.add(bi)
    return E


def is_iter_next(t):
    return t.get("trait") in ITER_NEXT and (t.get("f") or "").split("::")[-1] in ("next", "next_back")


def _field(pl):
    fl = [p for p in pl[1:] if isinstance(p, str) and p.startswith("f:")]
    if not fl:
        return None, None
    name, owner = fl[-1].split(":", 2)[1:]
    return name, owner


def _adt_field_ty(P, adt, name):
    a = P.adts.get(adt)
    if not a:
        return None
    for v in a["variants"]:
        for f in v["fields"]:
            if f[0] == name:
                return f[1]
    return None


class Stage:
    def __init__(self, P, lang, stage):
        self.P = P
        self.lang = lang
        self.stage = stage
        self.pre = "grafeo_adapters::query::%s::%s::" % (lang, stage)
        self.owner = self.pre + ("Lexer" if stage == "lexer" else "Parser")
        self.fns = [f for f in P.fns.values() if f.id.startswith(self.pre) or ("<" + self.pre) in f.id]
        if len(self.fns) < 5 or self.owner not in P.adts:
            raise CheckerError("C12-K8: %s %s module / type not found" % (lang, stage))
        self.cursors = self.discover_cursors()
        self.own_progress = {}
        self.prims = self.discover_prims()
        self.err = {f.id: error_blocks(f) for f in self.fns}
        self.mc_all = set(self.prims)
        self.mc_ok = set(self.prims)
        self.fix()

    # ---- cursor discovery
    def discover_cursors(self):
        P = self.P
        cur = set()
        a = P.adts[self.owner]
        ftys = {f[0]: f[1] for v in a["variants"] for f in v["fields"]}
        if self.stage == "lexer":
            for f in self.fns:
                fx = None
                for bi, t in f.calls():
                    c = callee_name(t)
                    if c.startswith("core::str::traits::") and c.endswith("::index") and len(t["args"]) >= 2:
                        fx = fx or FlowCx(P, f)
                        for x in fx.tags(t["args"][1]):
                            if x.startswith("cell:Lexer.") and ftys.get(x.split(".")[-1]) == "usize":
                                cur.add(x.split(".")[-1])
            for n, ty in ftys.items():
                if "core::str::iter::Chars" in ty or "CharIndices" in ty:
                    cur.add(n)
        else:
            tok = self.pre.replace("::parser::", "::lexer::") + "Token"
            for n, ty in ftys.items():
                if ty == tok:
                    cur.add(n)
            if "tokens" in ftys:
                for f in self.fns:
                    fx = None
                    for bi, t in f.calls():
                        c = callee_name(t)
                        if (c.endswith("::get") or c.endswith("::index")) and len(t["args"]) >= 2:
                            fx = fx or FlowCx(P, f)
                            if any(x == "cell:Parser.tokens" for x in fx.tags(t["args"][0])):
                                for x in fx.tags(t["args"][1]):
                                    if x.startswith("cell:Parser.") and ftys.get(x.split(".")[-1]) == "usize":
                                        cur.add(x.split(".")[-1])
        if not cur:
            raise CheckerError("C12-K8: no cursor found for the %s %s" % (self.lang, self.stage))
        return cur

    def discover_prims(self):
        P = self.P
        prims = set()
        for f in self.fns:
            if f.kind == "closure" or f.id.endswith("::new"):
                continue
            fx = None
            hit = False
            hitblocks = []
            for bi, b in enumerate(f.blocks):
                if b["cl"]:
                    continue
                if hit and (not hitblocks or hitblocks[-1] != bi - 1 or True):
                    pass
                was = hit
                hit = False
                for pl, rv, ln in b["s"]:
                    if rv[0] == "dead" or not (len(pl) >= 3 and pl[0] == 1):
                        continue
                    name, owner = _field(pl)
                    if owner != self.owner or name not in self.cursors:
                        continue
                    ty = _adt_field_ty(P, self.owner, name)
                    if ty == "usize":
                        fx = fx or FlowCx(P, f)
                        if any(x.startswith("bin:Add") for x in fx._tags_rv_public(rv)):
                            hit = True
                    elif rv[0] != "ref":
                        hit = True      # the current token is replaced
                t = b["t"]
                if t["k"] == "call":
                    c = callee_name(t)
                    dn, do = _field(t["dst"])
                    if do == self.owner and dn in self.cursors and t["dst"][0] == 1 and _adt_field_ty(P, self.owner, dn) != "usize":
                        hit = True      # the current token is replaced by a call's result
                    if is_iter_next(t) and t["args"]:
                        fx = fx or FlowCx(P, f)
                        if any(x.startswith("cell:%s." % self.owner.split("::")[-1]) and x.split(".")[-1] in self.cursors
                               and any(k in (_adt_field_ty(P, self.owner, x.split(".")[-1]) or "") for k in ("Chars", "Peekable", "CharIndices"))
                               for x in fx.tags(t["args"][0])):
                            hit = True      # the character iterator the lexer owns is pulled
                    if c.startswith("core::mem::replace") and t["args"]:
                        fx = fx or FlowCx(P, f)
                        if any(x.startswith("cell:%s." % self.owner.split("::")[-1]) and x.split(".")[-1] in self.cursors for x in fx.tags(t["args"][0])):
                            hit = True
                if hit:
                    hitblocks.append(bi)
                hit = hit or was
            if hit and not natural_loops(f):
                prims.add(f.id)
            elif hit:
                self.own_progress[f.id] = set(hitblocks)
        if not prims:
            raise CheckerError("C12-K8: no cursor-moving primitive found for the %s %s" % (self.lang, self.stage))
        return prims

    # ---- progress
    def call_kind(self, t):
        """'all' (progress on every return), 'ok' (progress on success returns only) or None"""
        if is_iter_next(t):
            return "iter"
        tg = self.P.call_targets(t)
        c = callee_name(t)
        cands = [c] if c in self.P.fns else list(tg)
        if not cands:
            return None
        if all(x in self.mc_all for x in cands):
            return "all"
        if all(x in self.mc_ok or x in self.mc_all for x in cands):
            return "ok"
        return None

    def error_target(self, f, bi):
        """block where control continues when the call in block bi returned its error value (None if it cannot be found)"""
        t = f.blocks[bi]["t"]
        if t["dst"] == [0]:
            return "RET"        # tail call: the callee's result is this function's result
        watch = [t["dst"][0]]
        nb = t.get("t")
        for _ in range(6):
            if nb is None:
                return None
            b = f.blocks[nb]
            for pl, rv, ln in b["s"]:
                if rv[0] in ("use", "ref") and isinstance(rv[-1], list):
                    src = rv[-1][1] if rv[0] == "use" and isinstance(rv[1], list) and len(rv[1]) > 1 else (rv[2] if rv[0] == "ref" else None)
                    if isinstance(src, list) and src and src[0] in watch and len(pl) == 1:
                        watch.append(pl[0])
                if pl == [0] and rv[0] == "use" and isinstance(rv[1], list) and len(rv[1]) > 1 and isinstance(rv[1][1], list) \
                        and rv[1][1] and rv[1][1][0] in watch:
                    return "RET"
                if rv[0] == "discr" and rv[1][0] in watch and rv[2] in ERR_VALUE:
                    tt = b["t"]
                    if tt["k"] == "sw":
                        ev = ERR_VALUE[rv[2]]
                        if ev in tt["v"]:
                            return tt["t"][tt["v"].index(ev)]
                        return tt["t"][-1]
            tt = b["t"]
            if tt["k"] == "call" and (tt.get("f") or "").endswith("Try::branch") and tt["args"] and \
                    isinstance(tt["args"][0][1], list) and tt["args"][0][1][0] in watch:
                watch.append(tt["dst"][0])
                nb = tt.get("t")
                continue
            if tt["k"] in ("goto", "assert", "drop"):
                nb = tt["t"]
                continue
            return None
        return None

    def progress(self, f, mode="ok", loops=False):
        """(progress blocks, extra no-progress entry points: error continuations of success-only MC calls).
        mode 'all': a success-only MC call whose result is handed straight to the caller does not count."""
        pb = set(self.own_progress.get(f.id, ()))
        extra = set()
        for bi, t in f.calls():
            k = self.call_kind(t)
            if k == "all" or (k == "iter" and loops):
                pb.add(bi)      # pulling any iterator bounds a loop, but only the cursor counts as consuming input
            elif k == "ok":
                e = self.error_target(f, bi)
                if e == "RET":
                    if mode == "ok":
                        pb.add(bi)
                elif e is not None:
                    pb.add(bi)
                    extra.add((bi, e))
        return pb, extra

    def fix(self):
        changed = True
        while changed:
            changed = False
            for f in self.fns:
                if f.kind == "closure" or f.id in self.mc_all:
                    continue
                pb, extra = self.progress(f, "all")
                starts = {0} | {e for (_, e) in extra}
                ex = set(f.exits())
                # all returns
                r_all = set()
                for s in starts:
                    if s not in pb:
                        r_all |= f.reachable_blocks(s, pb)
                if not (r_all & ex):
                    self.mc_all.add(f.id)
                    self.mc_ok.add(f.id)
                    changed = True
                    continue
                if f.id in self.mc_ok:
                    continue
                pb, extra = self.progress(f, "ok")
                starts = {0} | {e for (_, e) in extra}
                avoid = pb | self.err[f.id]
                r_ok = set()
                for s in starts:
                    if s not in avoid:
                        r_ok |= f.reachable_blocks(s, avoid)
                if not (r_ok & ex):
                    self.mc_ok.add(f.id)
                    changed = True

    def lazy_cycles(self, f, trust_nested=()):
        """[(ordinal, header, lazy?)] loops with a cycle that passes no progress block. For the loop ordinals in
        trust_nested the headers of the loops nested inside count as progress (reasoned exceptions only)."""
        pb0, extra = self.progress(f, "ok", loops=True)
        S = f.succ()
        out = []
        L = natural_loops(f)
        for k, (h, body) in enumerate(L):
            pb = set(pb0)
            if k in trust_nested:
                pb |= {h2 for (h2, b2) in L if h2 != h and h2 in body and b2 < body}
            starts = [s for s in S[h] if s in body] if h not in pb else []
            starts += [e for (b, e) in extra if b in body and e in body]
            seen = set()
            st = [s for s in starts if s not in pb]
            hit = None
            while st:
                x = st.pop()
                if x == h:
                    hit = x
                    break
                if x in seen or x in pb or x not in body:
                    continue
                seen.add(x)
                st.extend(S[x])
            out.append((k, h, hit is not None))
        return out


def run_k8(ctx, P):
    nloops = 0
    nprim = 0
    for lang in LANGS:
        for stage in ("lexer", "parser"):
            S = Stage(P, lang, stage)
            nprim += len(S.prims)
            ctx.note("K8 %s %s: cursor %s, primitives %s, %d always-consuming functions (%d on success paths only)"
                     % (lang, stage, sorted(S.cursors), sorted(short_id(x).split("::")[-1] for x in S.prims), len(S.mc_all), len(S.mc_ok - S.mc_all)))
            for f in S.fns:
                name = short_id(f.id)
                trust = {k for (l_, s_, n_, k) in EXCEPT if (l_, s_, n_) == (lang, stage, name)}
                plain = {k: lazy for k, h, lazy in S.lazy_cycles(f)} if trust else {}
                for k, h, lazy in S.lazy_cycles(f, trust):
                    nloops += 1
                    inst = "%s::%s#%s.loop[%d]" % (lang, stage, name.split("::")[-1] if f.kind != "closure" else name, k)
                    key = (lang, stage, name, k)
                    line = f.blocks[h]["t"].get("line") or (f.blocks[h]["s"][0][2] if f.blocks[h]["s"] else None)
                    if not lazy and plain.get(k) and key in EXCEPT:
                        ctx.ob("K8", inst, True, what="exception: " + EXCEPT[key], where=f.loc(line))
                        continue
                    ctx.ob("K8", inst, not lazy,
                           what="%s has a loop with a cycle that consumes no input: no path element moves the %s cursor (%s) or calls a "
                                "function that always does, so an input that takes this path makes the %s spin for ever"
                                % (name, stage, ", ".join(sorted(S.cursors)), stage), where=f.loc(line))
    # K8b - the end of input. A cursor primitive does not move at the end of input (advance() at EOF stays at EOF), so a
    # parser loop whose cycle makes progress *only* through bare primitive calls terminates at EOF only if each of those
    # calls sits behind a positive test of the current token (`== Comma`, a classifier that returned true, a TokenKind arm
    # other than Eof): the EOF token fails every such test. A loop of the shape `while current != X { advance() }` has no
    # such test and spins at the end of the input.
    from .flow import FlowCx
    nb = 0
    for lang in LANGS:
        S = Stage(P, lang, "parser")
        for f in S.fns:
            if f.kind == "closure":
                continue
            L = natural_loops(f)
            if not L:
                continue
            fx = None
            prim_blocks = {bi for bi, t in f.calls() if callee_name(t) in S.prims}
            other = {bi for bi, t in f.calls() if S.call_kind(t) in ("ok", "iter") or (S.call_kind(t) == "all" and callee_name(t) not in S.prims)}
            Sx = f.succ()
            for k, (h, body) in enumerate(L):
                if h in other:
                    continue
                seen = set()
                st = [s_ for s_ in Sx[h] if s_ in body]
                cyc = False
                while st:
                    x = st.pop()
                    if x == h:
                        cyc = True
                        continue
                    if x in seen or x in other or x not in body:
                        continue
                    seen.add(x)
                    st.extend(Sx[x])
                if not cyc:
                    continue
                fx = fx or FlowCx(P, f)
                j = 0
                for b in sorted(prim_blocks & (seen | {h})):
                    nb += 1
                    pos = False
                    for x in fx.facts_at(b):
                        flat = str(x)
                        about_token = any(("cell:Parser.%s" % c_) in flat for c_ in S.cursors) or "cell:Token.kind" in flat
                        if x[0] == "cmp" and x[1] == "Eq" and about_token:
                            pos = True
                        if x[0] == "call" and x[2] is True and str(x[1]).startswith("Parser::"):
                            pos = True
                        if x[0] == "variant" and str(x[1]).endswith("TokenKind") and x[2] != "Eof":
                            pos = True
                        if x[0] == "variant" and x[1] == "core::option::Option" and x[2] == "Some" and about_token:
                            pos = True
                    name = short_id(f.id)
                    ctx.ob("K8b", "%s::parser#%s.loop[%d].advance[%d]" % (lang, name.split("::")[-1], k, j), pos,
                           what="%s advances inside a loop whose cycle consumes input only through the bare cursor primitive, and this call is "
                                "not behind a positive test of the current token: at the end of the input the primitive does not move and "
                                "the loop never ends" % name, where=f.loc(f.blocks[b]["t"]["line"]))
                    j += 1
    ctx.floor("K8b", nb, 15, "cursor primitive calls on primitive-only loop cycles of the parsers")
    ctx.floor("K8", nloops, 140, "loops in the five lexers and parsers")
    ctx.floor("K8", nprim, 10, "cursor-moving primitives")
