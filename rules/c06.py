"""C06 - a crash loses at most the unsynced tail and never corrupts (DESIGN §5 C06)."""
from .facts import short_id, must_pass, must_pass_cp, Trace, CheckerError
from .flow import FlowCx, find_calls, callee_name, find_aggregates
from . import common

EXPLANATION = (
    "Decides the structural mechanisms every crash point relies on, on the MIR of the WAL writer/reader: (R1) decode of "
    "a record is control-dependent on stored checksum == crc32(data) over the same buffer; (R2) writer (sync and async) "
    "and reader framing agree: u32 LE length, data, u32 LE crc32(data); (R3) fsync of the temp file dominates the "
    "rename of the checkpoint metadata and log sync dominates the metadata write; (R4) the allocation for an untrusted "
    "length is guarded by a bound; (R5) a bad record ends replay (no further read is reachable from the error arm); "
    "(R6) the open path truncates the torn tail before the first append; (R7) records are promoted to the committed "
    "result only under a TxCommit (or Checkpoint) arm; (R8) Sync mode fsyncs on commit records, close syncs before "
    "marking closed, and rotation fsyncs the file it retires. Each fsync of the active log is preceded by a flush of its buffered writer, and the reader rejects no record length the writers accept (R4). "
    "The checkpoint metadata file only appears by rename of a completely written and fsynced temp file (R3 atomic-replace). "
    "Byte-level crash enumeration is not decided.")
ASSUMPTIONS = ["crash model of the property: each file may fall back to its last-fsynced length",
               "std::fs::File::{sync_all,set_len}, fs::rename and tokio equivalents are the durability primitives"]

SYNC_ALL = ("std::fs::File::sync_all", "tokio::fs::file::File::sync_all", "tokio::fs::File::sync_all", "std::fs::File::sync_data")
RENAME = ("std::fs::rename", "tokio::fs::rename::rename", "tokio::fs::rename")


def _is(c, names):
    return c in names or any(c.endswith("::" + n.split("::")[-1]) and n.split("::")[-2] in c for n in names)


def root_locals(fn, op, depth=0):
    """locals at which backward tracing of an operand stops (buffers): follows use/ref/deref/as_slice"""
    tr = Trace(fn)
    out = set()
    st = [op]
    seen = set()
    while st:
        o = st.pop()
        if o[0] not in ("c", "m"):
            continue
        pl = o[1]
        l = pl[0]
        if l in seen:
            continue
        seen.add(l)
        ds = [d for d in fn.defs().get(l, []) if len(d[2]) == 1]
        if not ds:
            out.add(l)
            continue
        for (bi, si, dpl, rv, ln) in ds:
            if rv[0] == "use":
                st.append(rv[1])
            elif rv[0] in ("ref", "raw"):
                st.append(["c", rv[2]])
            elif rv[0] == "cast":
                st.append(rv[2])
            elif rv[0] == "call":
                t = rv[1]
                nm = (t["f"] or "")
                if nm.split("::")[-1] in ("deref", "deref_mut", "as_slice", "as_ref", "as_mut", "borrow", "index", "as_mut_slice", "index_mut") and t["args"]:
                    st.append(t["args"][0])
                else:
                    out.add(l)
            else:
                out.add(l)
    return out


def run(ctx):
    P = ctx.program()
    E = ctx.effects()

    # ------------------------------------------------------------------ R1 checksum gates decode
    rr = P.fn("WalRecovery::read_record")
    rx = FlowCx(P, rr)
    dec = find_calls(rr, lambda c: c.startswith("bincode::") and "decode" in c)
    ctx.floor("R1", len(dec), 1, "decode call in read_record")
    hashes = find_calls(rr, lambda c: c == "crc32fast::hash")
    ctx.floor("R1", len(hashes), 1, "crc32 call in read_record")
    for bi, t in dec:
        ok = False
        for f in rx.facts_at(bi):
            if f[0] == "cmp" and f[1] == "Eq":
                a, b = f[2], f[3]
                if ("call:crc32fast::hash" in a) != ("call:crc32fast::hash" in b):
                    other = b if "call:crc32fast::hash" in a else a
                    if any(x.endswith("from_le_bytes") for x in other if x.startswith("call:")):
                        ok = True
        ctx.ob("R1", "read_record#decode-gated", ok,
               what="the decode of a WAL record is not control-dependent on stored_checksum == crc32fast::hash(data): a torn or "
                    "corrupt record can be applied", where=rr.loc(t["line"]))
        same = bool(root_locals(rr, t["args"][0]) & root_locals(rr, hashes[0][1]["args"][0]))
        ctx.ob("R1", "read_record#same-buffer", same,
               what="the buffer that is decoded is not the buffer whose checksum was verified", where=rr.loc(t["line"]))
    # Ok(Some(record)) only after the decode
    # ------------------------------------------------------------------ R2 framing agreement
    def writer_layout(fn):
        fx = FlowCx(P, fn)
        lay = []
        for bi, t in sorted(fn.calls(), key=lambda x: x[0]):
            c = callee_name(t)
            if c.split("::")[-1] != "write_all":
                continue
            tg = fx.tags(t["args"][1]) if len(t["args"]) > 1 else set()
            le = any(x.endswith("to_le_bytes") for x in tg)
            be = any(x.endswith("to_be_bytes") or x.endswith("to_ne_bytes") for x in tg)
            if "call:crc32fast::hash" in tg:
                lay.append("CRC32" + ("le" if le else "be" if be else "?"))
            elif le or be:
                w = "u32" if any("u32" in x for x in tg if x.startswith("call:") and "to_le_bytes" in x) else "int"
                lay.append("LEN" + ("le" if le else "be"))
            else:
                lay.append("DATA" if any("encode_to_vec" in x for x in tg) else "BYTES")
        return lay, fx

    def order_blocks(fn, blocks):
        # order by dominance (all framing calls are on one straight path)
        return sorted(blocks, key=lambda b: sum(1 for o in blocks if fn.dominates(o, b)))

    wl = P.fn("WalManager::log")
    lay_sync, _ = writer_layout(wl)
    # the async writer's body is a coroutine closure
    awl = [f for f in P.fns.values() if f.id.startswith("grafeo_adapters::storage::wal::async_log::AsyncWalManager::log::{closure")]
    lay_async = []
    for f in awl:
        l, _ = writer_layout(f)
        if l:
            lay_async = l
    # reader
    reads = [(bi, t) for bi, t in rr.calls() if callee_name(t).split("::")[-1] == "read_exact"]
    rlay = []
    for bi, t in sorted(reads, key=lambda x: sum(1 for (o, _) in reads if rr.dominates(o, x[0]))):
        bufs = root_locals(rr, t["args"][1])
        kinds = set()
        for l in bufs:
            ty = rr.local_ty(l)
            kinds.add("A4" if ty == "[u8; 4]" else ("VEC" if "Vec<u8" in ty else ty))
        rlay.append("/".join(sorted(kinds)))
    froms = [short_id(callee_name(t)) for bi, t in rr.calls() if callee_name(t).endswith("from_le_bytes") or callee_name(t).endswith("from_be_bytes")]
    exp_w = ["LENle", "DATA", "CRC32le"]
    ctx.ob("R2", "writer:WalManager::log", lay_sync == exp_w,
           what="WalManager::log frames a record as %s, expected %s" % (lay_sync, exp_w), where=wl.loc())
    ctx.ob("R2", "writer:AsyncWalManager::log", lay_async == exp_w,
           what="AsyncWalManager::log frames a record as %s, expected %s (must equal the sync writer and the reader)" % (lay_async, exp_w),
           where=awl[0].loc() if awl else "")
    ctx.ob("R2", "reader:WalRecovery::read_record", rlay == ["A4", "VEC", "A4"] and len(froms) == 2 and all(x.endswith("from_le_bytes") for x in froms),
           what="read_record reads %s with %s, expected [len:u32 LE][data][crc:u32 LE]" % (rlay, froms), where=rr.loc())
    # the length written is the length of the data written, and the crc is over the data written
    wx = FlowCx(P, wl)
    wcalls = [(bi, t) for bi, t in sorted(wl.calls(), key=lambda x: x[0]) if callee_name(t).split("::")[-1] == "write_all"]
    if len(wcalls) == 3:
        data_roots = root_locals(wl, wcalls[1][1]["args"][1])
        crc_in = [t for bi, t in wl.calls() if callee_name(t) == "crc32fast::hash"]
        ok = bool(crc_in) and bool(root_locals(wl, crc_in[0]["args"][0]) & data_roots)
        ctx.ob("R2", "writer:crc-over-data", ok, what="the checksum written by WalManager::log is not computed over the bytes it writes", where=wl.loc())

    # ------------------------------------------------------------------ R3 ordering
    def check_order(fn, first_pred, second_pred, inst, what):
        a = [bi for bi, t in fn.calls() if first_pred(t)]
        b = [bi for bi, t in fn.calls() if second_pred(t)]
        if not b:
            raise CheckerError("C06-R3 %s: anchor call not found in %s" % (inst, fn.id))
        ok = all(any(fn.dominates(x, y) and x != y for x in a) for y in b)
        ctx.ob("R3", inst, ok, what=what, where=fn.loc())

    wcm = P.fn("WalManager::write_checkpoint_metadata")

    def atomic_replace(fn, inst):
        """the live metadata file only ever appears by rename of a completely written temp file: the function renames, and
        what it creates / opens for writing is the rename's source, never its destination"""
        def fileops(h):
            ren_ = [(bi, t) for bi, t in h.calls() if _is(callee_name(t), RENAME)]
            cre_ = [(bi, t) for bi, t in h.calls() if callee_name(t).split("::")[-1] in ("create", "create_new") and "File" in callee_name(t)
                    or callee_name(t).endswith("OpenOptions::open")]
            return ren_, cre_
        ren, cre = fileops(fn)
        if not cre and not ren:
            # the file handling may have been moved into a helper of the module: judge the function that does it
            for hid in sorted(P.reach([fn])):
                h = P.fns[hid]
                if h.id != fn.id and h.krate == fn.krate and "::wal::" in h.id:
                    r2, c2 = fileops(h)
                    if r2 or c2:
                        fn, ren, cre = h, r2, c2
                        break
        if not cre and not ren:
            raise CheckerError("C06-R3 %s: neither a file creation nor a rename found in or below %s" % (inst, fn.id))
        fx = FlowCx(P, fn)
        srcs = [fx.tags(t["args"][0]) for bi, t in ren]
        dsts = [fx.tags(t["args"][1]) for bi, t in ren if len(t["args"]) > 1]
        ok = bool(ren) and all(any(fx.tags(t["args"][-1] if callee_name(t).endswith("OpenOptions::open") else t["args"][0]) == s_ for s_ in srcs) for bi, t in cre)             and not any(fx.tags(t["args"][-1] if callee_name(t).endswith("OpenOptions::open") else t["args"][0]) in dsts and
                        fx.tags(t["args"][-1] if callee_name(t).endswith("OpenOptions::open") else t["args"][0]) not in srcs for bi, t in cre)
        ctx.ob("R3", inst, ok,
               what="%s writes the checkpoint metadata file in place (%d rename calls, %d files created): File::create truncates the "
                    "live file first, so a crash or a failed write during a checkpoint leaves an empty or partial metadata file and "
                    "the next open fails" % (short_id(fn.id), len(ren), len(cre)), where=fn.loc())
        return fn if ren else None

    wfn = atomic_replace(wcm, "WalManager::write_checkpoint_metadata#atomic-replace")
    if wfn is not None:
        check_order(wfn, lambda t: _is(callee_name(t), SYNC_ALL), lambda t: _is(callee_name(t), RENAME),
                    "WalManager::write_checkpoint_metadata#sync-before-rename",
                    "the checkpoint metadata temp file is renamed into place without a dominating fsync: a crash can leave an empty or partial metadata file")
    ck = P.fn("WalManager::checkpoint")
    sync = P.fn("WalManager::sync")
    check_order(ck, lambda t: callee_name(t) == sync.id, lambda t: callee_name(t) == wcm.id,
                "WalManager::checkpoint#sync-before-metadata",
                "checkpoint metadata is written without a dominating log sync: the metadata can point past what is durable")
    # the checkpoint metadata names the log file that holds the checkpoint record (recovery skips everything below it)
    ckx = FlowCx(P, ck)
    for (bi, si, rv, ln) in find_aggregates(ck, "CheckpointMetadata"):
        for fname, op in zip(rv[5], rv[4]):
            fn_ = fname.strip('"')
            tg = ckx.tags(op)
            if fn_ == "log_sequence":
                ok = "cell:WalManager.current_sequence" in tg and not any(x.startswith("bin:") for x in tg)
                ctx.ob("R3", "WalManager::checkpoint#log_sequence", ok,
                       what="CheckpointMetadata.log_sequence is not the (unmodified) current log sequence: recovery starts at the wrong "
                            "file and skips records written after the checkpoint", where=ck.loc(ln))
            elif fn_ == "epoch":
                ctx.ob("R3", "WalManager::checkpoint#epoch", "param:3" in tg,
                       what="CheckpointMetadata.epoch is not the epoch passed to checkpoint()", where=ck.loc(ln))
    ctx.ob("R3", "WalManager::sync#fsync", any(_is(callee_name(t), SYNC_ALL) for bi, t in sync.calls()),
           what="WalManager::sync does not fsync the active log", where=sync.loc())
    # async siblings
    for nm in ("write_checkpoint_metadata", "checkpoint"):
        fs_ = [f for f in P.fns.values() if f.id.startswith("grafeo_adapters::storage::wal::async_log::AsyncWalManager::%s::{closure" % nm)]
        for f in fs_:
            if nm == "write_checkpoint_metadata":
                touches = any(_is(callee_name(t), RENAME) or (callee_name(t).split("::")[-1] in ("create", "create_new") and "File" in callee_name(t))
                              or callee_name(t).endswith("OpenOptions::open") for bi, t in f.calls())
                afn = atomic_replace(f, "AsyncWalManager::write_checkpoint_metadata#atomic-replace") if touches else None
                if afn is not None:
                    check_order(afn, lambda t: _is(callee_name(t), SYNC_ALL), lambda t: _is(callee_name(t), RENAME),
                                "AsyncWalManager::write_checkpoint_metadata#sync-before-rename",
                                "async checkpoint metadata is renamed into place without a dominating fsync")
    # ------------------------------------------------------------------ R4 bounded untrusted length
    allocs = [(bi, t) for bi, t in rr.calls() if callee_name(t).endswith("from_elem") or callee_name(t).endswith("with_capacity")
              or callee_name(t).endswith("::resize")]
    ctx.floor("R4", len(allocs), 1, "buffer allocation in read_record")
    for bi, t in allocs:
        lt = set()
        for a in t["args"]:
            lt |= rx.tags(a)
        if not any(x.endswith("from_le_bytes") for x in lt if x.startswith("call:")):
            continue
        ok = False
        for f in rx.facts_at(bi):
            if f[0] == "cmp" and f[1] in ("Le", "Lt", "Ge", "Gt"):
                a, b = f[2], f[3]
                la = any(x.endswith("from_le_bytes") for x in a if x.startswith("call:"))
                lb = any(x.endswith("from_le_bytes") for x in b if x.startswith("call:"))
                if la != lb:
                    # the length is on the small side
                    small_is_a = f[1] in ("Le", "Lt")
                    if (la and small_is_a) or (lb and not small_is_a):
                        ok = True
        ctx.ob("R4", "read_record#bounded-alloc", ok,
               what="read_record allocates a buffer of an untrusted length read from the file without a dominating upper-bound test "
                    "(a torn prefix can request up to 4 GiB)", where=rr.loc(t["line"]))

    reader_cap_rule(ctx, P, "R4")

    # ------------------------------------------------------------------ R5 a bad record ends replay
    ri = P.fn("WalRecovery::recover_internal")
    ix = FlowCx(P, ri)
    rcalls = [(bi, t) for bi, t in ri.calls() if callee_name(t) == rr.id]
    ctx.floor("R5", len(rcalls), 1, "read_record call in recover_internal")
    err_blocks = []
    for bi in range(len(ri.blocks)):
        if ri.blocks[bi]["cl"]:
            continue
        for f in ix.facts_at(bi):
            if f[0] == "variant" and f[1] == "core::result::Result" and f[2] == "Err" and "call:WalRecovery::read_record" in f[3]:
                err_blocks.append(bi)
    ctx.floor("R5", len(err_blocks), 1, "error arm of read_record in recover_internal")
    bad = [eb for eb in err_blocks if any(cb in ri.reachable_blocks(eb) for cb, _ in rcalls)]
    ctx.ob("R5", "recover_internal#bad-record-ends-replay", not bad,
           what="after a record fails its checksum recover_internal can read further records (the next file): the recovered state is "
                "not a prefix of the issued operations", where=ri.loc(rcalls[0][1]["line"]))

    # a log file is skipped only if its sequence is strictly below the checkpoint's (the checkpoint's own file also holds
    # the records written after the checkpoint)
    skipops = []
    for bi, b in enumerate(ri.blocks):
        if b["cl"]:
            continue
        for st in b["s"]:
            rv = st[1]
            if rv[0] == "bin" and rv[1] in ("Lt", "Le", "Gt", "Ge", "Eq", "Ne"):
                a_, b_ = ix.tags(rv[2]), ix.tags(rv[3])
                ca, cb = "cell:CheckpointMetadata.log_sequence" in a_, "cell:CheckpointMetadata.log_sequence" in b_
                fa_, fb_ = any(x.endswith("sequence_from_path") for x in a_), any(x.endswith("sequence_from_path") for x in b_)
                if cb and fa_ and not ca:
                    skipops.append(rv[1])
                elif ca and fb_ and not cb:
                    skipops.append({"Lt": "Gt", "Gt": "Lt", "Le": "Ge", "Ge": "Le"}.get(rv[1], rv[1]))
    ctx.floor("R5", len(skipops), 1, "checkpoint skip test in recover_internal")
    ctx.ob("R5", "recover_internal#skip-strictly-below-checkpoint", all(o == "Lt" for o in skipops),
           what="recover_internal skips log files with `sequence %s checkpoint sequence`; only files strictly below the checkpoint's "
                "sequence may be skipped" % skipops, where=ri.loc())

    # log files are replayed in sequence order
    glf = P.fn("WalRecovery::get_log_files")
    sorts = any(callee_name(t).split("::")[-1] in ("sort", "sort_by", "sort_by_key", "sort_unstable", "sort_unstable_by", "sort_unstable_by_key")
                for g in P.family(glf) for bi, t in g.calls())
    uses = any(callee_name(t) == glf.id for bi, t in ri.calls())
    ctx.ob("R5", "recover_internal#files-in-sequence-order", sorts and uses,
           what="recovery does not replay the log files in sorted (sequence) order: directory order is arbitrary, so later records can "
                "be applied before earlier ones", where=glf.loc())

    # ------------------------------------------------------------------ R6 tail repair before the first append
    wc = P.fn("WalManager::with_config")
    eal = P.fn("WalManager::ensure_active_log")
    setlen_callers = P.callers_closure([f for f in ["std::fs::File::set_len"]])  # external: not in fns
    # set_len is external: find workspace functions that call it
    direct = {f.id for f in P.fns.values() if any(callee_name(t) == "std::fs::File::set_len" for bi, t in f.calls())}
    reach_setlen = P.callers_closure(direct) if direct else set()
    a = [bi for bi, t in wc.calls() if any(x in reach_setlen for x in P.call_targets(t))]
    b = [bi for bi, t in wc.calls() if callee_name(t) == eal.id]
    ctx.floor("R6", len(b), 1, "ensure_active_log call in WalManager::with_config")
    ok = all(any(wc.dominates(x, y) and x != y for x in a) for y in b)
    ctx.ob("R6", "WalManager::with_config#truncate-before-append", ok,
           what="the open path reopens the newest log in append mode without first truncating it to its last valid record "
                "(File::set_len): records written after a crash land behind the torn bytes and are lost at the next open",
           where=wc.loc())
    # every way out of the repair routine's scan reaches the length comparison / truncation: a scan exit that
    # returns directly leaves a partial record (e.g. 1-3 bytes of a length prefix) in front of the next append
    for fid in direct:
        f = P.fns[fid]
        if f.impl_self != common.WAL:
            continue
        fx = FlowCx(P, f)
        scans = [bi for bi, t in f.calls() if callee_name(t).split("::")[-1] == "read_exact"]
        targets = {bi for bi, t in f.calls() if callee_name(t) == "std::fs::File::set_len"}
        from .flow import edge_conditions
        for sl in list(targets):
            for (a, s_) in edge_conditions(f, sl):
                c = fx.cond_of_switch(a)
                if c["kind"] == "cmp" and any(x.startswith("call:") and x.endswith("Metadata::len") for x in (c["a"] | c["b"])):
                    targets.add(a)
        exits = set(f.exits())
        ok = bool(scans) and all(must_pass(f, f.blocks[sb]["t"]["t"], targets, exits) for sb in scans if f.blocks[sb]["t"].get("t") is not None)
        ctx.ob("R6", "%s#every-scan-exit-truncates" % short_id(fid), ok,
               what="the tail-repair routine can leave its record scan and return without comparing the valid length with the file "
                    "length: a partial record (even 1-3 bytes of a length prefix) stays in front of the next append", where=f.loc())
    # the log that is appended to is the NEWEST one: the starting sequence is the maximum of the sequences found
    wcx = FlowCx(P, wc)
    seq_ok = False
    for (bi, si, rv, ln) in find_aggregates(wc, "wal::log::WalManager"):
        for fname, op in zip(rv[5], rv[4]):
            if fname.strip('"') == "current_sequence":
                tg = wcx.tags(op)
                seq_ok = any(x.startswith("call:") and x.split("::")[-1] in ("max", "max_by_key", "max_by") for x in tg) and \
                    not any(x.startswith("call:") and x.split("::")[-1] in ("min", "min_by_key", "min_by") for x in tg)
    ctx.ob("R6", "WalManager::with_config#appends-to-newest", seq_ok,
           what="WalManager::with_config does not start from the maximum existing log sequence: new records are appended to an older "
                "file and replayed before (or instead of) later ones", where=wc.loc())
    # the repair routine stops at the first record whose checksum does not match
    for fid in direct:
        f = P.fns[fid]
        if f.impl_self == common.WAL:
            has_crc = any(callee_name(t) == "crc32fast::hash" for bi, t in f.calls())
            ctx.ob("R6", "%s#validates-checksum" % short_id(fid), has_crc,
                   what="the tail-repair routine does not validate record checksums", where=f.loc())

    # ------------------------------------------------------------------ R7 promotion only by commit marker
    # Y = the vector returned in Ok(..); every addition to Y happens under a TxCommit/Checkpoint arm
    ret_roots = set()
    for (bi, si, rv, ln) in find_aggregates(ri, "core::result::Result", "Ok"):
        for op in rv[4]:
            ret_roots |= root_locals(ri, op)
    if not ret_roots:
        raise CheckerError("C06-R7: returned vector of recover_internal not found")
    n7 = 0
    for bi, t in ri.calls():
        nm = callee_name(t).split("::")[-1]
        if nm in ("push", "append", "extend", "extend_from_slice", "insert") and t["args"]:
            if root_locals(ri, t["args"][0]) & ret_roots:
                n7 += 1
                vs = [f[2] for f in ix.facts_at(bi) if f[0] == "variant" and f[1].endswith("WalRecord")]
                ok = any(v in ("TxCommit", "Checkpoint") for v in vs)
                ctx.ob("R7", "recover_internal#%s[%d]" % (nm, n7), ok,
                       what="records are added to the committed result outside a TxCommit/Checkpoint arm (arms: %s): uncommitted or "
                            "aborted records can be replayed" % vs, where=ri.loc(t["line"]))
    ctx.floor("R7", n7, 2, "additions to the committed result in recover_internal")
    # nothing is ever taken back out of the committed result (a checkpoint or abort record must not erase what earlier
    # commit markers promoted: no materialised image exists to replace it)
    shrink = []
    for bi, t in ri.calls():
        nm = callee_name(t).split("::")[-1]
        if nm in ("clear", "truncate", "drain", "retain", "pop", "remove", "swap_remove", "split_off", "take") and t["args"]:
            if root_locals(ri, t["args"][0]) & ret_roots:
                shrink.append((nm, t["line"]))
    ctx.ob("R7", "recover_internal#committed-never-shrinks", not shrink,
           what="recover_internal removes records from the committed result (%s): operations that were committed before a "
                "checkpoint / abort record are not replayed" % shrink, where=ri.loc())

    # ------------------------------------------------------------------ R8 modes / close / rotation
    lx = FlowCx(P, wl)
    sync_blocks = {bi for bi, t in wl.calls() if _is(callee_name(t), SYNC_ALL)}
    starts = []
    for bi in range(len(wl.blocks)):
        if wl.blocks[bi]["cl"]:
            continue
        fs_ = lx.facts_at(bi)
        if any(f[0] == "variant" and f[1].endswith("DurabilityMode") and f[2] == "Sync" for f in fs_) and \
                any(f[0] == "variant" and f[1].endswith("WalRecord") and f[2] == "TxCommit" for f in fs_):
            starts.append(bi)
    ctx.floor("R8", len(starts), 1, "Sync-mode commit-record region in WalManager::log")
    ok_returns = {bi for (bi, si, rv, ln) in find_aggregates(wl, "core::result::Result", "Ok")}
    region = set(starts)
    entries = [b for b in starts if not any(p in region for p in wl.pred()[b])]
    ok = all(must_pass_cp(wl, b, sync_blocks, ok_returns) for b in entries)
    ctx.ob("R8", "WalManager::log#Sync-commit-fsync", ok,
           what="in DurabilityMode::Sync a commit record can be acknowledged (log returns) without File::sync_all", where=wl.loc())
    close = P.fn("GrafeoDB::close")
    sync_calls = [bi for bi, t in close.calls() if callee_name(t) == sync.id]
    flag = [a_ for a_ in E.own_acc(close) if a_.how in ("assign", "lock") and a_.cell[1] == "is_open"]
    assigns = []
    for bi, b in enumerate(close.blocks):
        if b["cl"]:
            continue
        for st in b["s"]:
            if st[1][0] == "use" and st[1][1][0] == "k" and str(st[1][1][1]) in ("0", "false") and st[0][1:] == ["*"] and close.local_ty(st[0][0]).startswith("&mut bool"):
                assigns.append(bi)
    ctx.floor("R8", len(assigns), 1, "is_open = false in GrafeoDB::close")
    # on the path where a WAL exists, sync dominates... : every path from a checkpoint call to the assignment passes sync
    cks = [bi for bi, t in close.calls() if callee_name(t) == ck.id]
    ok = bool(cks) and all(must_pass(close, c, set(sync_calls), set(assigns)) for c in cks)
    ctx.ob("R8", "GrafeoDB::close#sync-before-closed", ok,
           what="GrafeoDB::close can mark the database closed after a checkpoint without syncing the log", where=close.loc())
    # an fsync of the log only makes durable what has left the user-space buffer: wherever the log's BufWriter is
    # fsynced (through get_ref()), a flush of that writer dominates the fsync
    nfs = 0
    for f in P.fns.values():
        if not (f.id.startswith("grafeo_adapters::storage::wal::log::") or f.id.startswith("grafeo_adapters::storage::wal::async_log::")):
            continue
        fx2 = None
        for bi, t in f.calls():
            if not _is(callee_name(t), SYNC_ALL):
                continue
            fx2 = fx2 or FlowCx(P, f)
            tg = fx2.tags(t["args"][0])
            if not any(x.startswith("call:") and x.split("::")[-1] in ("get_ref", "get_mut", "into_inner") for x in tg):
                continue  # a bare File (temp file, tail repair), nothing is buffered in user space
            nfs += 1
            fl = [b2 for b2, t2 in f.calls() if callee_name(t2).split("::")[-1] == "flush"]
            if f.kind == "closure":
                # coroutine body of an async fn: after the state transform every resume point hangs off the dispatch block,
                # so dominance says nothing; require that the fsync is reached from a flush of the writer
                ok = any(bi in f.reachable_blocks(b2) and b2 != bi for b2 in fl)
            else:
                ok = any(f.dominates(b2, bi) and b2 != bi for b2 in fl)
            k = sum(1 for b3, t3 in f.calls() if _is(callee_name(t3), SYNC_ALL) and b3 < bi)
            ctx.ob("R8", "%s#flush-before-fsync[%d]" % (short_id(f.id), k), ok,
                   what="%s fsyncs the log file without flushing its BufWriter first: records still in the user-space buffer are "
                        "reported durable by a sync / checkpoint / close that has not written them" % short_id(f.id), where=f.loc(t["line"]))
    ctx.floor("R8", nfs, 4, "fsyncs of the buffered log writer")
    # tokio's BufWriter::into_inner (unlike std's) hands out the file and *discards* what is still buffered, and dropping
    # a tokio BufWriter does not flush either: taking the file out of the log's writer needs a flush before it
    for f in P.fns.values():
        if not (f.id.startswith("grafeo_adapters::storage::wal::")):
            continue
        for bi, t in f.calls():
            c = callee_name(t)
            if not (c.startswith("tokio::io::") and c.endswith("::into_inner")):
                continue
            fl = [b2 for b2, t2 in f.calls() if callee_name(t2).split("::")[-1] == "flush"]
            ok = any((bi in f.reachable_blocks(b2) if f.kind == "closure" else f.dominates(b2, bi)) and b2 != bi for b2 in fl)
            ctx.ob("R8", "%s#flush-before-into_inner" % short_id(f.id), ok,
                   what="%s takes the file out of a tokio BufWriter without flushing it: into_inner() discards the buffered records "
                        "(std's flushes, tokio's does not), so records that were acknowledged never reach the file" % short_id(f.id),
                   where=f.loc(t["line"]))
    # dropping the database closes it (commit marker, checkpoint, sync)
    ddrop = P.method("GrafeoDB", "Drop", "drop")
    ctx.ob("R8", "GrafeoDB#drop-closes", close.id in P.reach([ddrop]),
           what="dropping a GrafeoDB does not reach GrafeoDB::close: what was written since the last sync is not made durable and the "
                "records stay without a commit marker", where=ddrop.loc())
    # close writes the commit marker before the checkpoint (C05-R8) and only then marks the database closed
    # R8b rotation
    rot = P.fn("WalManager::rotate")
    ok = any(_is(callee_name(t), SYNC_ALL) for bi, t in rot.calls())
    ctx.ob("R8b", "WalManager::rotate#fsync-retired", ok,
           what="rotate() replaces the active log without fsyncing the file it retires: later sync() calls only touch the new file, "
                "so the old file's tail can be lost although later records were synced", where=rot.loc())
    arot = [f for f in P.fns.values() if f.id.startswith("grafeo_adapters::storage::wal::async_log::AsyncWalManager::rotate::{closure")]
    ctx.floor("R8b", len(arot), 1, "AsyncWalManager::rotate body")
    ok = any(_is(callee_name(t), SYNC_ALL) for f in arot for bi, t in f.calls())
    ctx.ob("R8b", "AsyncWalManager::rotate#fsync-retired", ok,
           what="async rotate() replaces the active log without flushing and fsyncing the file it retires", where=arot[0].loc())


def reader_cap_rule(ctx, P, rule):
    rr = P.fn("WalRecovery::read_record")
    rx = FlowCx(P, rr)
    wl = P.fn("WalManager::log")
    awl = [f for f in P.fns.values() if f.id.startswith("grafeo_adapters::storage::wal::async_log::AsyncWalManager::log::{closure")]
    # the reader rejects no record the writer accepts: a fixed size cap in read_record must also be enforced by the
    # writers (otherwise a large but valid record is written, kept by the tail repair, and ends replay at every reopen)
    import re as _re
    caps = set()
    for bi, b in enumerate(rr.blocks):
        if b["cl"]:
            continue
        for st in b["s"]:
            rv = st[1]
            if rv[0] == "bin" and rv[1] in ("Lt", "Le", "Gt", "Ge"):
                a_, b_ = rx.tags(rv[2]), rx.tags(rv[3])
                for x_, y_ in ((a_, b_), (b_, a_)):
                    if any(z.endswith("from_le_bytes") for z in x_ if z.startswith("call:")) and y_ and all(_re.match(r"^const:\d+$", z) for z in y_):
                        caps |= {int(z[6:]) for z in y_}
    caps = {c for c in caps if c > 4096}
    wconsts = set()
    for wf in [wl] + awl:
        wx2 = FlowCx(P, wf)
        for bi, b in enumerate(wf.blocks):
            if b["cl"]:
                continue
            for st in b["s"]:
                rv = st[1]
                if rv[0] == "bin" and rv[1] in ("Lt", "Le", "Gt", "Ge"):
                    for z in wx2.tags(rv[2]) | wx2.tags(rv[3]):
                        if _re.match(r"^const:\d+$", z):
                            wconsts.add(int(z[6:]))
    ctx.ob(rule, "read_record#no-cap-the-writer-lacks", caps <= wconsts,
           what="read_record rejects records longer than %s bytes but WalManager::log writes them without that limit: a valid "
                "large record (e.g. a big property value) is treated as corruption and ends replay at every reopen"
                % sorted(caps - wconsts), where=rr.loc())

