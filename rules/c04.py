"""C04 - serializable transactions (DESIGN §5 C04)."""
from .facts import short_id
from .flow import FlowCx, find_aggregates, callee_name
from . import common
from .c03 import overlap_fact, membership_fact, WRITE_SET, plumbing

EXPLANATION = (
    "(R11) no function assigns TxInfo.start_epoch after the TxInfo was built. "
    "(R10) the isolation level a session requests reaches TransactionManager::begin_with_isolation, TxInfo::new and the TxInfo field unchanged, the TxInfo is always registered under the allocated id with the manager's clock as start epoch. "
    "Decides structural necessary conditions of SSI validation on the MIR: (R1) read registration reaches the manager "
    "from every session read path; (R2) every SerializationFailure refusal is control-dependent on "
    "isolation == Serializable, on the strict overlap test commit_epoch(other) > start_epoch(ours) and on membership of "
    "a read entity in the other write set; (R3) it is also control-dependent on the transaction having written "
    "something, so read-only transactions are never refused. (R8) commit only reads the read/write sets; (R9) one exclusive guard on the transaction table spans validation and publication. "
    "R7 also: every Ok return of record_read has registered the entity (or found it registered). "
    "Acyclicity over all histories is not decided.")
ASSUMPTIONS = ["operands identified by provenance (TxInfo.isolation_level/start_epoch/read_set/write_set, TransactionManager.committed_epochs)"]

READ_SET = "cell:TxInfo.read_set"


def run(ctx):
    P = ctx.program()
    isolation_plumbing(ctx, P, "R10")
    start_epoch_is_immutable(ctx, P, "R11")
    commit = P.fn("TransactionManager::commit")
    cx = FlowCx(P, commit)
    rec = P.fn("TransactionManager::record_read")
    entries = common.read_entries(P)
    ctx.floor("R1", len(entries), 18, "session read entry points")
    callers = P.callers_closure([rec.id])
    for e in entries:
        ctx.ob("R1", short_id(e.id), e.id in callers,
               what="no call path from %s to TransactionManager::record_read: serializable transactions validate an empty read set (snapshot isolation only)" % short_id(e.id),
               where=e.loc())
    plumbing(ctx, P, "record_read")
    # begin_with_isolation hands its isolation argument to the new transaction
    bw = P.fn("TransactionManager::begin_with_isolation")
    bx = FlowCx(P, bw)
    ok = False
    for bi, t in bw.calls():
        if callee_name(t).endswith("TxInfo::new"):
            ok = "param:2" in bx.tags(t["args"][1])
    ctx.ob("R7", "begin_with_isolation#level", ok,
           what="begin_with_isolation does not pass its isolation level to the new transaction", where=bw.loc())
    # validation only reads the sets: a commit that is refused returns with the transaction still Active, so whatever
    # commit removed from its read or write set is missing when the transaction (or a later committer) is validated again
    sets_read_only(ctx, P, commit, "R8", ("read_set", "write_set"), 4)
    atomic_validate_publish(ctx, P, commit, "R9", [("TransactionError", "SerializationFailure"), ("TransactionError", "WriteConflict")])
    sf = find_aggregates(commit, "TransactionError", "SerializationFailure")
    ctx.floor("R2", len(sf), 1, "SerializationFailure constructions in TransactionManager::commit")
    for n, (bi, si, rv, ln) in enumerate(sf):
        facts = cx.facts_at(bi)
        inst = "TransactionManager::commit#SerializationFailure[%d]" % n
        iso = any(f[0] == "cmp" and f[1] == "Eq" and
                  (("cell:TxInfo.isolation_level" in f[2] and "const:IsolationLevel::Serializable" in f[3]) or
                   ("cell:TxInfo.isolation_level" in f[3] and "const:IsolationLevel::Serializable" in f[2])) for f in facts)
        ctx.ob("R2", inst + "/isolation", iso,
               what="SerializationFailure refusal is not control-dependent on isolation_level == Serializable", where=commit.loc(ln))
        op = overlap_fact(facts)
        ctx.ob("R2", inst + "/overlap", op == "Gt",
               what="SerializationFailure refusal is not control-dependent on the strict overlap test commit_epoch > start_epoch (found %s)" % op,
               where=commit.loc(ln))
        mem = any(f[0] == "call" and f[1].endswith("::contains") and f[2] is True and WRITE_SET in f[3][0] and READ_SET in f[3][1] for f in facts if f[0] == "call" and len(f[3]) >= 2)
        ctx.ob("R2", inst + "/membership", mem,
               what="SerializationFailure refusal is not control-dependent on `other.write_set.contains(entity of our read_set)`", where=commit.loc(ln))
        wr = any(f[0] == "call" and f[1].endswith("::is_empty") and f[2] is False and any(WRITE_SET in t for t in f[3]) for f in facts)
        ctx.ob("R3", inst, wr,
               what="SerializationFailure refusal is not gated on the transaction having written anything: a read-only serializable transaction can be refused",
               where=commit.loc(ln))


def sets_read_only(ctx, P, commit, rule, cells, floor):
    """commit's validation only reads TxInfo.read_set / write_set (shared with C03 for the write set)"""
    E = ctx.effects()
    nacc = 0
    for g in P.family(commit):
        for a in E.own_acc(g):
            if a.cell[0] == common.TXINFO and a.cell[1] in cells:
                nacc += 1
                bad = E.is_write(a) or a.how in ("refmut",) or any(o.split("::")[-1] in ("take", "replace", "swap", "drain", "clear", "retain") for o in a.ops)
                ctx.ob(rule, "TransactionManager::commit#%s-read-only" % a.cell[1], not bad,
                       what="TransactionManager::commit modifies TxInfo.%s (%s %s) while validating: after a refused commit the "
                            "transaction stays Active with a changed set, and the next validation (a retry, or a later committer) "
                            "works on the wrong set" % (a.cell[1], a.kind, sorted(o.split("::")[-1] for o in a.ops)[:4]),
                       where=g.loc(a.line))
    ctx.floor(rule, nacc, floor, "accesses to %s in commit" % "/".join(cells))


def atomic_validate_publish(ctx, P, commit, rule, refusals):
    """validation and publication of a commit are one critical section: one exclusive guard on the transaction table
    is held from before every refusal decision until the state becomes Committed. With the two steps under different
    guards, two committers validate against a table in which the other is still Active and both commit."""
    from .locks import acquisitions, held_region
    E = ctx.effects()
    acqs = [a for a in acquisitions(commit) if a[2] and a[2][1] == "transactions"]
    ctx.floor(rule, len(acqs), 1, "acquisitions of TransactionManager.transactions in commit")
    pub = {a.block for a in E.own_acc(commit) if a.cell[0] == common.TXINFO and a.cell[1] == "state" and E.is_write(a)}
    # ... or a call to a helper of the manager that performs the state write (publication moved into a function)
    for bi, t in commit.calls():
        g = P.fns.get(callee_name(t))
        if g is not None and g.id != commit.id and g.krate == commit.krate:
            W, _ = E.closure_sets([g])
            if any(c[0] == common.TXINFO and c[1] == "state" for c in W):
                pub.add(bi)
    pub = sorted(pub)
    ref = []
    for variant_owner, variant in refusals:
        ref += [bi for bi, si, rv, ln in find_aggregates(commit, variant_owner, variant)]
    ctx.floor(rule, len(pub), 1, "assignments of TxInfo.state in commit")
    ctx.floor(rule, len(ref), 1, "refusal constructions in commit")
    ok = False
    detail = []
    for bi, mode, cell, guard, line in acqs:
        region, kills = held_region(commit, bi, guard)
        covers = all(b in region for b in pub) and all(b in region for b in ref)
        detail.append("line %d (%s): covers publication=%s, refusals=%s" % (line, mode, all(b in region for b in pub), all(b in region for b in ref)))
        if covers and mode == "W":
            ok = True
    ctx.ob(rule, "TransactionManager::commit#validate-and-publish-one-guard", ok,
           what="no single exclusive guard on the transaction table spans both the conflict checks and `state = Committed` "
                "in TransactionManager::commit (%s): concurrent committers can validate against each other's Active state and "
                "both commit" % "; ".join(detail), where=commit.loc())


def isolation_plumbing(ctx, P, rule):
    """The level a session asks for is the level the manager validates with: the parameter of
    Session::begin_tx_with_isolation reaches TransactionManager::begin_with_isolation, that function's parameter reaches
    TxInfo::new, TxInfo::new stores its parameter in `isolation_level`, the start epoch it records is the manager's clock,
    and the id it hands out is the key under which the TxInfo is registered. A constant or a default on the way turns a
    Serializable request into Snapshot isolation without any error."""
    from .flow import FlowCx, callee_name
    hops = [("Session::begin_tx_with_isolation", "TransactionManager::begin_with_isolation", "isolation_level"),
            ("TransactionManager::begin_with_isolation", "TxInfo::new", "isolation_level")]
    for src, dst, pname in hops:
        f = P.fn(src)
        fx = FlowCx(P, f)
        pidx = [l for l, nm in f.names().items() if nm == pname and 1 <= l <= f.argc]
        sites = [(bi, t) for bi, t in f.calls() if callee_name(t).endswith(dst)]
        ctx.floor(rule, len(sites), 1, "%s -> %s call" % (src, dst))
        ctx.floor(rule, len(pidx), 1, "parameter %s of %s" % (pname, src))
        for bi, t in sites:
            ok = any(("param:%d" % pidx[0]) in fx.tags(a) for a in t["args"])
            ctx.ob(rule, "%s->%s#%s" % (src.split("::")[-1], dst.split("::")[-1], pname), ok,
                   what="%s does not pass its `%s` on to %s: the transaction runs at another level than the one requested and a "
                        "serializable session silently gets snapshot isolation" % (src, pname, dst), where=f.loc(t["line"]))
        # the hand-over is unconditional: no path to the return avoids it
    # TxInfo::new stores what it is given
    tn = P.fn("TxInfo::new")
    tx = FlowCx(P, tn)
    n = 0
    for bi, b in enumerate(tn.blocks):
        if b["cl"]:
            continue
        for pl, rv, ln in b["s"]:
            if rv[0] == "agg" and rv[1] == "adt" and rv[2].endswith("TxInfo"):
                n += 1
                for fname, op in zip(rv[5], rv[4]):
                    fn_ = fname.strip('"')
                    pn = [l for l, nm in tn.names().items() if nm == fn_ and 1 <= l <= tn.argc]
                    if pn:
                        ctx.ob(rule, "TxInfo::new#%s" % fn_, ("param:%d" % pn[0]) in tx.tags(op),
                               what="TxInfo::new does not store its parameter `%s` in the field of that name" % fn_, where=tn.loc(ln))
    ctx.floor(rule, n, 1, "TxInfo literal in TxInfo::new")
    # begin registers the TxInfo under the id it returns
    bw = P.fn("TransactionManager::begin_with_isolation")
    bx = FlowCx(P, bw)
    ins = [(bi, t) for bi, t in bw.calls() if callee_name(t).split("::")[-1] == "insert" and "cell:TransactionManager.transactions" in bx.tags(t["args"][0])]
    ctx.floor(rule, len(ins), 1, "registration of the TxInfo in begin_with_isolation")
    from .facts import must_pass
    ctx.ob(rule, "begin_with_isolation#always-registers", must_pass(bw, 0, {bi for bi, t in ins}, set(bw.exits())),
           what="begin_with_isolation can return a transaction id without registering its TxInfo", where=bw.loc())
    for bi, t in ins:
        ktags = bx.tags(t["args"][1])
        rtags = set()
        for d_ in bw.defs().get(0, []):
            rtags |= bx._tags_rv_public(d_[3]) if d_[3][0] != "call" else set()
        ctx.ob(rule, "begin_with_isolation#key-is-returned-id", any(x.startswith("cell:TransactionManager.next_tx_id") for x in ktags),
               what="the TxInfo is registered under a key that does not come from the id allocator", where=bw.loc(t["line"]))
        etags = bx.tags(t["args"][2]) if len(t["args"]) > 2 else set()
        ctx.ob(rule, "begin_with_isolation#start-epoch-is-clock", any(x.startswith("cell:TransactionManager.current_epoch") for x in etags),
               what="the TxInfo registered at begin does not record the manager's current epoch as the start epoch: overlap tests in commit "
                    "compare against another clock", where=bw.loc(t["line"]))


def start_epoch_is_immutable(ctx, P, rule):
    """Overlap is judged against the epoch at which the transaction took its snapshot. That epoch is fixed when the TxInfo
    is built; no function may assign TxInfo.start_epoch afterwards (a "late snapshot" that moves it forward at the first
    write forgets every commit the transaction has already read around, and write skew goes through)."""
    n = 0
    bad = []
    for f in P.fns.values():
        if "::tests::" in f.id:
            continue
        ctor = f.kind != "closure" and f.local_ty(0).endswith("transaction::manager::TxInfo")     # builds and returns a TxInfo by value
        for b in f.blocks:
            if b["cl"]:
                continue
            for pl, rv, ln in b["s"]:
                if rv[0] == "dead":
                    continue
                if ctor and not (rv[0] == "agg"):
                    continue
                fl = [p for p in pl[1:] if isinstance(p, str) and p.startswith("f:start_epoch:") and p.endswith("transaction::manager::TxInfo")]
                if fl or (rv[0] == "ref" and rv[1] == "mut" and any(isinstance(p, str) and p.startswith("f:start_epoch:") and p.endswith("transaction::manager::TxInfo") for p in rv[2][1:])):
                    bad.append((f, ln))
                if rv[0] == "agg" and rv[1] == "adt" and rv[2].endswith("transaction::manager::TxInfo"):
                    n += 1
            t = b["t"]
            if t["k"] == "call" and any(isinstance(p, str) and p.startswith("f:start_epoch:") and p.endswith("transaction::manager::TxInfo") for p in t["dst"][1:]):
                bad.append((f, t["line"]))
    ctx.floor(rule, n, 1, "TxInfo literals (where start_epoch is set)")
    from .facts import short_id
    ctx.ob(rule, "TxInfo.start_epoch#immutable", not bad,
           what="%s assigns TxInfo.start_epoch after the transaction has begun: the overlap tests of commit then compare against a snapshot "
                "the transaction did not read from, and a commit it read around is no longer seen as concurrent"
                % (short_id(bad[0][0].id) if bad else ""), where=(bad[0][0].loc(bad[0][1]) if bad else ""))
