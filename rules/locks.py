"""lock scopes and the lock-order graph (DESIGN §5 C20-R1/R2)"""
from collections import defaultdict
from .facts import LOCK_API, Trace, short_id
from .flow import callee_name
from . import common


def acquisitions(fn):
    """[(block, mode 'R'/'W', cell or None, guard local, line)]"""
    tr = Trace(fn)
    out = []
    for bi, t in fn.calls():
        f = t["f"]
        if f in LOCK_API:
            mode, kind = LOCK_API[f]
            if kind == "nolock":
                continue
            cell = None
            for r in tr.origin(t["args"][0]):
                if r["kind"] == "field":
                    flds = [x for x in r["fields"] if not x[1].startswith(("core::option", "core::result", "(tuple)"))]
                    if flds:
                        name, owner = flds[-1]
                        cell = (owner, name)
            out.append((bi, mode, cell, t["dst"][0], t["line"]))
    return out


def held_region(fn, acq_block, guard):
    """blocks in which the guard acquired at the end of acq_block may still be held"""
    kills = set(common.guard_kills(fn, guard))
    S = fn.succ()
    t = fn.blocks[acq_block]["t"]
    start = t.get("t")
    if start is None:
        return set()
    seen = set()
    st = [start]
    while st:
        b = st.pop()
        if b in seen:
            continue
        seen.add(b)
        if b in kills:
            # the guard is released by this block's terminator: the block's statements still run under it,
            # but its successors do not
            continue
        st.extend(S[b])
    return seen, kills


class LockGraph:
    def __init__(self, P, scope=None):
        self.P = P
        self.scope = scope
        self.direct = {}
        for f in P.fns.values():
            if scope and not scope(f):
                continue
            a = acquisitions(f)
            if a:
                self.direct[f.id] = a
        # transitive: cells that may be locked somewhere below f
        self._star = {}
        self.edges = defaultdict(list)  # (A,B) -> [witness]

    def star(self, fid, _stack=None):
        if fid in self._star:
            return self._star[fid]
        # iterative DFS over the call graph
        E = self.P.edges()
        seen = set()
        st = [fid]
        cells = {}
        while st:
            x = st.pop()
            if x in seen:
                continue
            seen.add(x)
            for (bi, mode, cell, g, ln) in self.direct.get(x, ()):
                if cell is not None:
                    cells.setdefault(cell, (x, ln, mode))
            for y in E.get(x, ()):
                if y not in seen:
                    st.append(y)
        self._star[fid] = cells
        return cells

    def build(self):
        P = self.P
        for fid, acqs in self.direct.items():
            f = P.fns[fid]
            for (bi, mode, cell, guard, ln) in acqs:
                if cell is None:
                    continue
                region, kills = held_region(f, bi, guard)
                for b in region:
                    t = f.blocks[b]["t"]
                    if t["k"] != "call":
                        continue
                    if b in kills and any(a[0] == "m" and a[1] == [guard] for a in t["args"]):
                        continue
                    if t["f"] in LOCK_API:
                        for (b2, m2, c2, g2, l2) in acqs:
                            if b2 == b and c2 is not None:
                                self.edges[(cell, c2)].append({"fn": fid, "held_line": ln, "acq_line": l2, "via": None,
                                                               "modes": mode + m2})
                        continue
                    for y in P.call_targets(t):
                        for c2, (where, l2, m2) in self.star(y).items():
                            self.edges[(cell, c2)].append({"fn": fid, "held_line": ln, "acq_line": t["line"], "via": y,
                                                           "inner": where, "modes": mode + m2})
        return self.edges

    def cycles(self):
        """2-cycles and self-edges"""
        out = []
        for (a, b) in self.edges:
            if a == b:
                out.append((a, b))
            elif (b, a) in self.edges and a < b:
                out.append((a, b))
        return out
