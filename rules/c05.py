"""C05 - a persistent database reopens to the state it was closed with (DESIGN §5 C05)."""
from .facts import must_pass, short_id, CheckerError
from .flow import FlowCx, find_calls, callee_name, find_aggregates
from . import common

EXPLANATION = (
    "Decides structural necessary conditions of reopen-equals-close on the MIR: (R1) every public GrafeoDB method that "
    "mutates persisted store cells of its own store reaches WalManager::log and constructs the WalRecord variants its "
    "store calls require (record<->mutator table), with record fields fed from the same-named inputs; (R2) the same "
    "for the session mutation paths; (R4) replay (apply_wal_records) has one arm per data variant of WalRecord, each "
    "calling the table's store mutator with id-preserving constructors and same-named fields; (R5) id-preserving "
    "constructors bump the id allocators; (R7) log files are skipped/deleted only if a materialised image is loaded; "
    "(R8) every checkpoint is preceded by a commit marker. (R3m) on every path that performs a store call the matching record is logged - before it, after it on every path, or skipped only on the call's own result. "
    "It does not replay any log.")
ASSUMPTIONS = ["property indexes, statistics and catalogs are derived or advisory state and are not required in the log",
               "methods whose store receiver is a freshly created database (save/to_memory/import_snapshot/replay) are not self-mutators"]

STORE2REC = {
    "create_node": {"CreateNode"}, "create_node_with_props": {"CreateNode", "SetNodeProperty"},
    "create_node_with_id": {"CreateNode"}, "delete_node": {"DeleteNode"},
    "create_edge": {"CreateEdge"}, "create_edge_with_props": {"CreateEdge", "SetEdgeProperty"},
    "create_edge_with_id": {"CreateEdge"}, "delete_edge": {"DeleteEdge"},
    "set_node_property": {"SetNodeProperty"}, "set_edge_property": {"SetEdgeProperty"},
    "add_label": {"AddNodeLabel"}, "remove_label": {"RemoveNodeLabel"},
    "remove_node_property": {"RemoveNodeProperty"}, "remove_edge_property": {"RemoveEdgeProperty"},
}
REPLAY = {
    "CreateNode": "create_node_with_id", "DeleteNode": "delete_node", "CreateEdge": "create_edge_with_id",
    "DeleteEdge": "delete_edge", "SetNodeProperty": "set_node_property", "SetEdgeProperty": "set_edge_property",
    "AddNodeLabel": "add_label", "RemoveNodeLabel": "remove_label",
    "RemoveNodeProperty": "remove_node_property", "RemoveEdgeProperty": "remove_edge_property",
}
CONTROL = {"TxCommit", "TxAbort", "Checkpoint"}
DB = "grafeo_engine::database::GrafeoDB"


def persisted(c):
    return c[0] == common.LPG and common.LPG_CELLS.get(c[1]) in ("versioned", "data")


def run(ctx):
    P = ctx.program()
    E = ctx.effects()
    common.check_classification(P)
    log = P.fn("WalManager::log")
    logcallers = P.callers_closure([log.id])
    M = E.mutators()
    # LpgStore methods that write persisted cells
    store_mut = {}
    for m in P.methods_of("LpgStore"):
        if m.impl_self != common.LPG or m.impl_trait:
            continue
        W, _ = E.closure_sets([m])
        if any(persisted(c) for c in W):
            store_mut[m.id] = m.id.split("::")[-1]
    ctx.floor("R1", len(store_mut), 15, "LpgStore mutators of persisted cells")

    # ---- R1/R3 direct API
    walrec = P.adt("wal::record::WalRecord")
    variants = [v["name"] for v in walrec["variants"]]
    data_variants = [v for v in variants if v not in CONTROL]
    ctx.floor("R4", len(data_variants), 8, "data variants of WalRecord")
    nmut = 0
    for m in sorted(P.methods_of("GrafeoDB"), key=lambda f: f.line):
        if m.impl_self != DB or m.impl_trait or m.vis != "pub":
            continue
        fam = P.family(m)
        self_calls = []
        for g in fam:
            gx = FlowCx(P, g)
            for bi, t in g.calls():
                c = callee_name(t)
                if c in store_mut and t["args"]:
                    tg = gx.tags(t["args"][0])
                    if "cell:GrafeoDB.store" in tg and "param:1" in tg and not any(x.startswith("call:GrafeoDB::") for x in tg):
                        self_calls.append((g, bi, t, store_mut[c]))
        if not self_calls:
            continue
        nmut += 1
        name = m.id.split("::")[-1]
        required = set()
        norec = []
        for (g, bi, t, sc) in self_calls:
            if sc not in STORE2REC:
                ctx.ob("R1", "GrafeoDB::%s#unknown-store-mutator:%s" % (name, sc), False,
                       what="GrafeoDB::%s calls LpgStore::%s, which mutates persisted cells but has no entry in the record<->mutator table" % (name, sc),
                       where=g.loc(t["line"]))
                continue
            r = STORE2REC[sc]
            if r is None:
                norec.append(sc)
            else:
                required |= r
        for sc in sorted(set(norec)):
            ctx.ob("R1", "GrafeoDB::%s#no-record:%s" % (name, sc), False,
                   what="GrafeoDB::%s mutates the store through LpgStore::%s but no WalRecord variant exists for it and nothing is "
                        "logged: the change is gone after close/reopen" % (name, sc), where=m.loc())
        if not required:
            continue
        ctx.ob("R1", "GrafeoDB::%s#reaches-log" % name, m.id in logcallers,
               what="GrafeoDB::%s mutates persisted store cells but does not reach WalManager::log" % name, where=m.loc())
        built = {}
        for g in fam:
            for (bi, si, rv, ln) in find_aggregates(g, "WalRecord"):
                built.setdefault(rv[3], []).append((g, bi, rv, ln))
        # the record is built in the same body (closure) as the store call it describes: a record built outside the
        # per-element closure / loop is logged once per call of the method, not once per entity
        for (g, bi, t, sc) in self_calls:
            for v in sorted(STORE2REC.get(sc) or ()):
                local = bool(find_aggregates(g, "WalRecord", v))
                ctx.ob("R3", "GrafeoDB::%s#%s-built-with-store-call" % (name, v), local,
                       what="GrafeoDB::%s calls LpgStore::%s in %s but builds the WalRecord::%s in another body: the record is not "
                            "produced once per store call" % (name, sc, short_id(g.id), v), where=g.loc(t["line"]))
        for (g, bi, t, sc) in self_calls:
            if bi not in g.reachable_blocks(g.blocks[bi]["t"].get("t")) if g.blocks[bi]["t"].get("t") is not None else True:
                continue
            cyc = g.reachable_blocks(g.blocks[bi]["t"]["t"])
            for v in sorted(STORE2REC.get(sc) or ()):
                same_loop = False
                for (bb, si, rv, ln) in find_aggregates(g, "WalRecord", v):
                    if bb in cyc and bi in g.reachable_blocks(bb):
                        same_loop = True
                ctx.ob("R3", "GrafeoDB::%s#%s-per-iteration" % (name, v), same_loop,
                       what="GrafeoDB::%s calls LpgStore::%s inside a loop but builds the WalRecord::%s outside that loop: only part "
                            "of the entities it creates are logged" % (name, sc, v), where=g.loc(t["line"]))
        # R3m the pairing is unconditional: on every path that performs the store call the record is logged - before the
        # call (log-then-apply), or after it on every path to the return - unless the path that skips the record is chosen by
        # the result of the store call itself (nothing was changed, nothing to log)
        for (g, bi, t, sc) in self_calls:
            gx = FlowCx(P, g)
            for v in sorted(STORE2REC.get(sc) or ()):
                recs = [bb for (bb, si, rv, ln) in find_aggregates(g, "WalRecord", v)]
                if not recs:
                    continue
                R_ = set(recs)
                before = must_pass(g, 0, R_, {bi})
                nxt = g.blocks[bi]["t"].get("t")
                after = nxt is not None and must_pass(g, nxt, R_, set(g.exits()))
                scn = short_id(callee_name(t))
                def from_result(x):
                    if x[0] == "call":
                        return x[1] == scn or any(("call:" + scn) in a for a in x[3] if isinstance(a, (set, frozenset)))
                    sets = [a for a in x[2:4] if isinstance(a, (set, frozenset))]
                    return any(("call:" + scn) in a for a in sets)
                on_result = any(from_result(x) for bb in recs for x in gx.facts_at(bb))
                # one record per element of what was handed to the store call (a property list): the loop over the elements
                # runs zero times for an empty list, which is the only way past the record
                per_element = all(bb in g.reachable_blocks(g.blocks[bb]["t"].get("t")) if g.blocks[bb]["t"].get("t") is not None else False for bb in recs) \
                    and bi not in g.reachable_blocks(recs[0])
                on_result = on_result or per_element
                ctx.ob("R3m", "GrafeoDB::%s#%s-with-every-%s" % (name, v, sc), before or after or on_result,
                       what="GrafeoDB::%s can call LpgStore::%s on a path that does not log the WalRecord::%s (the record is neither built "
                            "before the call on every path, nor after it on every path, nor skipped on the call's own result): that "
                            "change is lost at reopen" % (name, sc, v), where=g.loc(t["line"]),
                       detail={"log_before_call": before, "log_after_call": after, "skipped_on_call_result": on_result})
        for v in sorted(required):
            ok = v in built
            ctx.ob("R3", "GrafeoDB::%s#%s" % (name, v), ok,
                   what="GrafeoDB::%s calls a store mutator that requires a WalRecord::%s but never constructs one: that part of the "
                        "change is not logged" % (name, v), where=m.loc())
            if ok:
                # the record is handed to the log on a path that is not conditional on anything but the wal being enabled
                for (g, bi, rv, ln) in built[v]:
                    gx = FlowCx(P, g)
                    flows = _flows_to_log(P, E, g, bi, rv, logcallers)
                    ctx.ob("R3", "GrafeoDB::%s#%s->log" % (name, v), flows,
                           what="the WalRecord::%s built in GrafeoDB::%s does not flow into a call that reaches WalManager::log" % (v, name),
                           where=g.loc(ln))
                    # same-named inputs feed the record fields
                    pnames = {nm: l for l, nm in g.names().items() if 1 <= l <= g.argc}
                    for fname, op in zip(rv[5], rv[4]):
                        fn_ = fname.strip('"')
                        if fn_ in pnames:
                            tg = gx.tags(op)
                            ctx.ob("R3", "GrafeoDB::%s#%s.%s" % (name, v, fn_), ("param:%d" % pnames[fn_]) in tg,
                                   what="field `%s` of the logged WalRecord::%s is not fed from the parameter `%s` of GrafeoDB::%s"
                                        % (fn_, v, fn_, name), where=g.loc(ln))
    # a record is logged whenever the store was changed: the construction of a data record in a GrafeoDB method hangs only on
    # the WAL being configured, on loop / `?` plumbing and on the outcome of the store call it describes - never on another
    # test (a de-duplication of keys, a value test ...), or the log misses a change the store has applied
    nlog = 0
    store_mut_names = set(store_mut.values())
    for g in sorted(P.fns.values(), key=lambda g: g.id):
        root = P.fns.get(g.parent) if g.kind == "closure" and g.parent else g
        if root is None or not root.id.startswith("grafeo_engine::database::GrafeoDB::") or root.id.endswith(("::apply_wal_records", "::close", "::wal_checkpoint")):
            continue
        gx = None
        for bi, b in enumerate(g.blocks):
            if b["cl"]:
                continue
            for pl, rv, ln in b["s"]:
                if not (rv[0] == "agg" and rv[1] == "adt" and rv[2].endswith("wal::record::WalRecord") and rv[3] in data_variants):
                    continue
                gx = gx or FlowCx(P, g)
                nlog += 1
                extra = []
                for x in gx.facts_at(bi):
                    if x[0] == "variant":
                        continue
                    if x[0] == "call" and ("LpgStore::" in str(x[1]) or str(x[1]).split("::")[-1] in store_mut_names):
                        continue
                    if x[0] == "bool" and "cell:GrafeoDB.is_open" in str(x):
                        continue
                    extra.append((x[0], str(x[1]).split("::")[-1], str(x[2])))
                ctx.ob("R3", "GrafeoDB::%s#%s#logged-unconditionally" % (root.id.split("::")[-1], rv[3]), not extra,
                       what="GrafeoDB::%s builds the WalRecord::%s only when %s holds: a change the store has applied is not logged and is "
                            "gone (or different) after reopen" % (root.id.split("::")[-1], rv[3], extra[:2]), where=g.loc(ln))
    ctx.floor("R3", nlog, 15, "data records built in GrafeoDB methods")
    ctx.floor("R1", nmut, 11, "public GrafeoDB methods mutating their own store")

    # ---- R2 session coverage
    for e in common.mutation_entries(P):
        ctx.ob("R2", short_id(e.id), e.id in logcallers,
               what="%s can mutate the graph but no path reaches WalManager::log (the session has no handle on the WAL): the change "
                    "is gone after close/reopen" % short_id(e.id), where=e.loc())

    # ---- R4 replay agreement
    app = P.fn("GrafeoDB::apply_wal_records")
    ax = FlowCx(P, app)
    arms = {}
    for bi, t in app.calls():
        c = callee_name(t)
        if c in store_mut or c.startswith(common.LPG + "::"):
            for f in ax.facts_at(bi):
                if f[0] == "variant" and f[1].endswith("WalRecord"):
                    arms.setdefault(f[2], []).append((bi, t, c.split("::")[-1]))
    for v in data_variants:
        exp = REPLAY.get(v)
        if exp is None:
            ctx.ob("R4", "replay#%s" % v, False, what="WalRecord::%s is a data variant without an entry in the replay table" % v, where=app.loc())
            continue
        got = [c for (_, _, c) in arms.get(v, [])]
        ctx.ob("R4", "replay#%s" % v, got == [exp],
               what="replay of WalRecord::%s must call exactly LpgStore::%s (found %s): reopened state differs from the logged one" % (v, exp, got),
               where=app.loc())
        for (bi, t, c) in arms.get(v, []):
            # the arm applies the record whatever it carries: the store call hangs only on the variant test (and the loop),
            # not on a test of the record's own content (a replay that skips, say, NULL values reopens to another state)
            def _mentions(z):
                if isinstance(z, str):
                    return z.startswith("cell:%s." % v)
                if isinstance(z, (set, frozenset, list, tuple)):
                    return any(_mentions(y) for y in z)
                return False
            extra = [f for f in ax.facts_at(bi) if not (f[0] == "variant" and f[1].endswith("WalRecord")) and _mentions(f[1:])]
            ctx.ob("R4", "replay#%s#unconditional" % v, not extra,
                   what="replay applies WalRecord::%s only when a test of the record's own content holds (%s): records the writer "
                        "logged are skipped at reopen, so the reopened state differs from the one that was closed"
                        % (v, "; ".join(str(f[:3]) for f in extra[:2])), where=app.loc(t["line"]))
            cf = P.fns[callee_name(t)]
            for i, a in enumerate(t["args"]):
                pn = cf.names().get(i + 1)
                if pn and any(fl["name"] == v and any(ff[0] == pn for ff in fl["fields"]) for fl in walrec["variants"]):
                    tg = ax.tags(a)
                    ctx.ob("R4", "replay#%s.%s" % (v, pn), ("cell:%s.%s" % (v, pn)) in tg,
                           what="replay of WalRecord::%s passes something other than the record's `%s` as `%s` of LpgStore::%s" % (v, pn, pn, c),
                           where=app.loc(t["line"]))
    for v in arms:
        if v in CONTROL:
            ctx.ob("R4", "replay#control:%s" % v, False, what="control record %s mutates the store during replay" % v, where=app.loc())
    # with_config replays before opening the log for append
    wc = P.fn("GrafeoDB::with_config")
    ctx.ob("R4", "open#replays", app.id in P.reach([wc]) and P.fn("WalRecovery::recover").id in P.reach([wc]),
           what="GrafeoDB::with_config does not reach WalRecovery::recover + apply_wal_records", where=wc.loc())

    # ---- R4b whatever the log writer accepts, replay accepts (shared with C06-R4)
    from .c06 import reader_cap_rule
    reader_cap_rule(ctx, P, "R4")

    # ---- R5 id allocators restored
    for fnm, cell in (("create_node_with_id", "next_node_id"), ("create_edge_with_id", "next_edge_id")):
        f = P.fn("LpgStore::" + fnm)
        ok = any(a.cell == (common.LPG, cell) and a.kind == "RMW" for a in E.own_acc(f))
        ctx.ob("R5", "LpgStore::%s#%s" % (fnm, cell), ok,
               what="LpgStore::%s does not raise %s with an atomic read-modify-write: ids handed out after a reopen can collide" % (fnm, cell), where=f.loc())

    # ---- R7 nothing skipped without an image
    rec = P.fn("WalRecovery::recover_internal")
    rx = FlowCx(P, rec)
    skips = False
    for bi, b in enumerate(rec.blocks):
        if b["cl"]:
            continue
        for st in b["s"]:
            rv = st[1]
            if rv[0] == "bin" and rv[1] in ("Lt", "Le", "Gt", "Ge"):
                tg = rx.tags(rv[2]) | rx.tags(rv[3])
                if "cell:CheckpointMetadata.log_sequence" in tg:
                    skips = True
    trunc = P.fn("WalManager::truncate_old_logs")
    deletes = any(callee_name(t) == "std::fs::remove_file" for bi, t in trunc.calls())
    image = False
    for fid in P.reach([wc]):
        for bi, t in P.fns[fid].calls():
            if callee_name(t).startswith("bincode::") and "decode" in callee_name(t) and "Snapshot" in t["ga"]:
                image = True
    ctx.ob("R7", "skip-without-image", image or not (skips or deletes),
           what="recovery skips log files below the checkpoint's sequence (%s) and checkpoint deletes old log files (%s), but the open "
                "path loads no materialised image of the graph: records in skipped/deleted files are lost" % (skips, deletes),
           where=rec.loc())

    # ---- R8 checkpoint preceded by a commit marker
    ck = P.fn("WalManager::checkpoint")
    nck = 0
    for f in P.fns.values():
        if f.krate != "grafeo_engine":
            continue
        fx = None
        for bi, t in f.calls():
            if callee_name(t) != ck.id:
                continue
            nck += 1
            fx = fx or FlowCx(P, f)
            ok = False
            for b2, t2 in f.calls():
                tg = set()
                if P.call_targets(t2) and any(x in logcallers for x in P.call_targets(t2)) and f.dominates(b2, bi) and b2 != bi:
                    for a in t2["args"]:
                        tg |= fx.tags(a)
                    if "agg:WalRecord::TxCommit" in tg or "const:WalRecord::TxCommit" in tg:
                        ok = True
            ctx.ob("R8", "%s#checkpoint" % short_id(f.id), ok,
                   what="%s calls WalManager::checkpoint without a dominating log(TxCommit): recovery drops the records that are "
                        "not yet followed by a commit marker" % short_id(f.id), where=f.loc(t["line"]))
    ctx.floor("R8", nck, 2, "engine call sites of WalManager::checkpoint")


def _flows_to_log(P, E, g, bi, rv, logcallers):
    """does the aggregate built in block bi flow (by reference) into a call that reaches WalManager::log"""
    # destination local of the aggregate
    dst = None
    for st in g.blocks[bi]["s"]:
        if st[1] is rv:
            dst = st[0][0]
    if dst is None:
        return False
    ops, _ = E.flow(g).forward_ops([dst])
    for o in ops:
        tg = P.call_targets(o["term"])
        if any(x in logcallers for x in tg):
            return True
    return False
