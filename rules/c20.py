"""C20 - concurrent use is safe (DESIGN §5 C20)."""
from .facts import short_id, CheckerError
from .flow import FlowCx, callee_name
from .locks import LockGraph, acquisitions, held_region
from . import common

EXPLANATION = (
    "Decides structural necessary conditions of thread safety on guard lifetimes and atomic accesses taken from MIR: "
    "(R1) the may-hold lock-order graph over all RwLock/Mutex cells of the workspace (edge A->B when B may be acquired, "
    "directly or in a callee, while a guard of A may be held; read locks count) has no 2-cycle outside a triaged "
    "table; (R2) no lock is re-acquired while its own guard may be held; (R3) no atomic cell is loaded, compared and "
    "then updated by a separate non-CAS write in the same function (check-then-act); (R4) id / epoch allocators are "
    "written only by atomic read-modify-write operations; (R5) a function that updates a primary structure and its "
    "mirrors does so under one continuously held guard of the group; (R6b, under R6) a grant method that reserves through the releaser writes the grant's size only after the reservation succeeded or on the shrinking side; (R6) allocate and release touch the same "
    "counters and a dropped grant reaches release. Linearizability of outcomes is not decided.")
ASSUMPTIONS = ["locks are identified by the struct field they live in (all instances of a type share an identity)",
               "parking_lot read locks can block behind a queued writer, so read-read order inversions count"]

# 2-cycles confirmed NOT to be a deadlock, with the reason (by reading)
TRIAGED = {
    frozenset(["QuantizedHnswIndex.product_codes", "QuantizedHnswIndex.product_quantizer"]):
        "the codes->quantizer edge only exists in the one-off training branch (quantizer_trained == false, serialized by the "
        "training_samples guard); the quantizer->codes edge only in the trained branch; training clears the samples, so a second "
        "training pass needs training_threshold <= 1",
    frozenset(["QuantizedHnswIndex.scalar_quantizer", "QuantizedHnswIndex.scalar_vectors"]):
        "same structure as the product quantizer pair: training branch vs trained branch are separated by quantizer_trained",
}
GROUPS = {
    "rdf-triples": (common.RDF, ["triples", "subject_index", "predicate_index", "object_index"]),
    "lpg-labels": (common.LPG, ["node_labels", "label_index"]),
}
# functions that touch a group for an identifier nobody else can know yet (not yet published)
FRESH_ID = {"LpgStore::create_node_versioned": "the node id comes from the allocator in this call and is published by the final insert into `nodes`",
            "LpgStore::create_node_with_id": "replay / import of a snapshot: single-threaded construction of a store nobody else holds",
            "LpgStore::create_node_with_props_versioned": "delegates to create_node_versioned for a fresh id"}
ALLOCATORS = [(common.LPG, "next_node_id"), (common.LPG, "next_edge_id"), (common.TM, "next_tx_id"), (common.TM, "current_epoch")]


def cn(c):
    return c[0].split("::")[-1] + "." + c[1]


def run(ctx):
    P = ctx.program()
    E = ctx.effects()
    # ---- R1 / R2
    G = LockGraph(P)
    edges = G.build()
    ctx.floor("R1", len(G.direct), 150, "functions acquiring locks")
    ctx.floor("R1", len(edges), 60, "lock-order edges")
    ctx.analysed["main"]["lock_functions"] = len(G.direct)
    ctx.analysed["main"]["lock_order_edges"] = len(edges)
    cyc = G.cycles()
    for (a, b) in sorted(cyc, key=lambda x: (cn(x[0]), cn(x[1]))):
        if a == b:
            w = edges[(a, a)][0]
            ctx.ob("R2", "relock:%s@%s" % (cn(a), short_id(w["fn"])), False,
                   what="%s acquires %s while a guard of the same lock may still be held%s: parking_lot locks are not re-entrant"
                        % (short_id(w["fn"]), cn(a), (" (through %s)" % short_id(w["via"])) if w.get("via") else ""),
                   where=P.fns[w["fn"]].loc(w["acq_line"]))
            continue
        key = frozenset([cn(a), cn(b)])
        w1, w2 = edges[(a, b)][0], edges[(b, a)][0]
        if key in TRIAGED:
            ctx.ob("R1", "cycle:%s<->%s" % (cn(a), cn(b)), True, what="triaged infeasible: " + TRIAGED[key],
                   where=P.fns[w1["fn"]].loc(w1["acq_line"]))
            continue
        ctx.ob("R1", "cycle:%s<->%s" % (cn(a), cn(b)), False,
               what="lock-order inversion: %s takes %s then %s (line %s->%s%s) while %s takes %s then %s (line %s->%s%s): two threads "
                    "can deadlock" % (short_id(w1["fn"]), cn(a), cn(b), w1["held_line"], w1["acq_line"],
                                     " via " + short_id(w1["via"]) if w1.get("via") else "",
                                     short_id(w2["fn"]), cn(b), cn(a), w2["held_line"], w2["acq_line"],
                                     " via " + short_id(w2["via"]) if w2.get("via") else ""),
               where=P.fns[w1["fn"]].loc(w1["acq_line"]),
               detail={"a_then_b": [short_id(x["fn"]) for x in edges[(a, b)]][:6], "b_then_a": [short_id(x["fn"]) for x in edges[(b, a)]][:6]})
    if not [c for c in cyc if frozenset([cn(c[0]), cn(c[1])]) not in TRIAGED]:
        ctx.ob("R1", "acyclic", True, what="no untriaged 2-cycle among %d lock-order edges" % len(edges))

    # ---- R3 check-then-act on atomics
    n3 = 0
    for f in P.fns.values():
        acc = E.own_acc(f)
        at = [a for a in acc if a.how.startswith("atomic:")]
        if not at:
            continue
        if f.argc >= 1 and f.local_ty(1).startswith("&mut "):
            continue  # exclusive access to the owner: no concurrent writer exists
        cells = {a.cell for a in at}
        fx = None
        for c in cells:
            loads = [a for a in at if a.cell == c and a.how == "atomic:load"]
            writes = [a for a in at if a.cell == c and a.how in ("atomic:store", "atomic:fetch_add", "atomic:fetch_sub", "atomic:swap")]
            if not loads or not writes:
                continue
            fx = fx or FlowCx(P, f)
            tagc = "cell:%s.%s" % (c[0].split("::")[-1], c[1])
            # switches whose condition depends on a loaded value of c
            sw = []
            for bi, b in enumerate(f.blocks):
                if b["cl"] or b["t"]["k"] != "sw":
                    continue
                tg = fx.tags(b["t"]["d"])
                if tagc in tg and any(x.startswith("call:") and x.endswith("::load") for x in tg) and \
                        any(x.startswith("bin:") or x.startswith("call:") and x.split("::")[-1] in ("gt", "lt", "ge", "le") for x in tg):
                    sw.append(bi)
            for w in writes:
                if any(w.block in f.reachable_blocks(s) for s in sw):
                    # a lock held across check and act makes it safe
                    held = False
                    for (ab, mode, cell, guard, ln) in acquisitions(f):
                        reg, _ = held_region(f, ab, guard)
                        if w.block in reg and all(s in reg for s in sw):
                            held = True
                    n3 += 1
                    ctx.ob("R3", "%s#%s" % (short_id(f.id), c[1]), held,
                           what="%s loads %s, branches on the value and then updates it with a separate `%s`: two threads can both pass "
                                "the test (check-then-act); use fetch_update / compare_exchange" % (short_id(f.id), cn(c), w.how.split(":")[1]),
                           where=f.loc(w.line))
    ctx.note("R3: %d check-then-act candidates evaluated" % n3)
    tr = P.fn("BufferManager::try_allocate")
    cas = any(a.cell[1] == "allocated" and a.how in ("atomic:fetch_update", "atomic:compare_exchange", "atomic:compare_exchange_weak")
              for g in P.family(tr) for a in E.own_acc(g))
    ctx.ob("R3", "BufferManager::try_allocate#reserves-with-cas", cas,
           what="BufferManager::try_allocate does not reserve memory with a single compare-and-swap style update of `allocated`", where=tr.loc())

    # ---- R4 allocators
    for cell in ALLOCATORS:
        ws = E.writers_of(cell)
        ctx.floor("R4", len(ws), 1, "writers of " + cn(cell))
        for a in ws:
            fn = P.fns[a.fn]
            ctor = fn.id.split("::")[-1] in ("new", "with_config", "default")
            ctx.ob("R4", "%s@%s" % (cn(cell), short_id(a.fn)), a.kind == "RMW" or ctor,
                   what="%s writes the allocator %s with a plain `%s`: concurrent callers can be handed duplicate ids / epochs"
                        % (short_id(a.fn), cn(cell), a.how), where=fn.loc(a.line))

    # ---- R5 paired structures in one critical section
    n5 = 0
    for gname, (owner, cells) in GROUPS.items():
        cellset = {(owner, c) for c in cells}
        for f in P.fns.values():
            if f.impl_self != owner or f.kind == "closure":
                continue
            acqs = [a for a in acquisitions(f) if a[2] in cellset and a[1] == "W"]
            touched = {a[2] for a in acqs}
            if len(touched) < 2:
                continue
            n5 += 1
            sid = short_id(f.id)
            if sid in FRESH_ID:
                ctx.ob("R5", "%s#%s" % (sid, gname), True, what="exception: " + FRESH_ID[sid], where=f.loc())
                continue
            covered = False
            for (ab, mode, cell, guard, ln) in acqs:
                reg, kills = held_region(f, ab, guard)
                others = [x for x in acqs if x[2] != cell]
                if all(x[0] in reg for x in others):
                    covered = True
            ctx.ob("R5", "%s#%s" % (sid, gname), covered,
                   what="%s updates %s in separately locked sections: a concurrent call on the same key can interleave between them and "
                        "leave an index entry without (or missing for) its primary entry" % (sid, sorted(cn(c) for c in touched)),
                   where=f.loc())
    ctx.floor("R5", n5, 4, "functions writing two or more cells of a paired group")

    # ---- R5b property values and their index are a pair too, but only the values live behind a lock of their own
    # (PropertyStorage) and the index behind another: a function that updates both needs one guard across both steps
    idx_writers = {f.id for f in P.methods_of("LpgStore") if f.impl_self == common.LPG and
                   (common.LPG, "property_indexes") in E.closure_sets([f])[0] and f.id.split("::")[-1].startswith("update_property_index")}
    nb = 0
    for f in P.methods_of("LpgStore"):
        if f.impl_self != common.LPG or f.impl_trait or f.id in idx_writers:
            continue
        idx_blocks = [bi for bi, t in f.calls() if callee_name(t) in idx_writers]
        val_blocks = []
        for a in E.own_acc(f):
            if a.cell == (common.LPG, "node_properties") and a.kind == "PASS" and E.is_write(a):
                val_blocks.append(a.block)
        if not idx_blocks or not val_blocks:
            continue
        nb += 1
        if short_id(f.id) in FRESH_ID:
            ctx.ob("R5", "%s#lpg-property-index" % short_id(f.id), True, what="exception: " + FRESH_ID[short_id(f.id)], where=f.loc())
            continue
        covered = False
        for (ab, mode, cell, guard, ln) in acquisitions(f):
            reg, _ = held_region(f, ab, guard)
            if all(b in reg for b in idx_blocks) and all(any(x in reg for x in f.reachable_blocks(vb) | {vb}) for vb in val_blocks):
                covered = True
        ctx.ob("R5", "%s#lpg-property-index" % short_id(f.id), covered,
               what="%s updates the property index and the property value in two unguarded steps: two threads setting the same "
                    "property of one node can interleave (index(old->A), index(old->B), value=A, value=B) and leave the node in "
                    "the bucket of a value it does not have" % short_id(f.id), where=f.loc())
    ctx.floor("R5", nb, 3, "functions updating property values and property index")

    # ---- R7 double-checked creation: a function that looks a key up under a READ guard of X, and on a miss takes a
    # WRITE guard of X to add it, must look the key up again through the write guard (or test the result of the add):
    # between the two guards another thread may have added the same key.
    n7 = 0
    for f in P.fns.values():
        if f.kind == "closure" or f.krate not in ("grafeo_core", "grafeo_engine", "grafeo_common", "grafeo_adapters"):
            continue
        acq = acquisitions(f)
        cells_rw = {}
        for (ab, mode, cell, guard, ln) in acq:
            if cell is not None:
                cells_rw.setdefault(cell, set()).add(mode)
        both = [c for c, m in cells_rw.items() if m == {"R", "W"}]
        if not both:
            continue
        fx = None
        for cell in both:
            tagc = "cell:%s.%s" % (cell[0].split("::")[-1], cell[1])
            wacq = [a for a in acq if a[2] == cell and a[1] == "W"]
            racq = [a for a in acq if a[2] == cell and a[1] == "R"]
            # the read acquisition must come first (lookup), the write later
            if not any(w[0] in f.reachable_blocks(r[0]) for r in racq for w in wacq):
                continue
            fx = fx or FlowCx(P, f)
            for bi, t in f.calls():
                c = callee_name(t)
                last = c.split("::")[-1]
                if last not in ("insert", "push", "entry") or not t["args"]:
                    continue
                rt = fx.tags(t["args"][0])
                if tagc not in rt or "call:RwLock::write" not in rt:
                    continue
                # only creations of a fresh identifier matter: the value added is derived from a container length or a
                # counter (a cache fill or a set insert whose own result is tested is idempotent)
                vt = set()
                for a_ in t["args"][1:]:
                    vt |= fx.tags(a_)
                fresh = any(y.startswith("call:") and y.split("::")[-1] in ("len", "fetch_add") for y in vt)
                if not fresh:
                    continue
                # ... and the same key must have been looked up under the read guard
                keyt = fx.tags(t["args"][1]) if len(t["args"]) > 1 else set()
                looked = False
                for b2, t2 in f.calls():
                    if callee_name(t2).split("::")[-1] in ("get", "contains_key", "contains") and len(t2["args"]) > 1:
                        r2 = fx.tags(t2["args"][0])
                        # the receiver must be the guarded container itself, not something reached through it
                        rty = f.types[t2["aty"][0]].lstrip("&").replace("mut ", "").strip()
                        fty = ""
                        for v_ in P.adts.get(cell[0], {"variants": []})["variants"]:
                            for fl in v_["fields"]:
                                if fl[0] == cell[1]:
                                    fty = fl[1]
                        if rty.split("<")[0] not in fty or (rty not in fty and rty.replace(", alloc::alloc::Global", "") not in fty):
                            continue
                        if tagc in r2 and "call:RwLock::read" in r2:
                            k2 = fx.tags(t2["args"][1])
                            if {y for y in k2 if y.startswith("param:") and y != "param:1"} & {y for y in keyt if y.startswith("param:") and y != "param:1"}:
                                looked = True
                if not looked:
                    continue
                n7 += 1
                facts = fx.facts_at(bi)
                rechecked = False
                for x in facts:
                    argsets = []
                    if x[0] == "variant" and x[2] in ("None", "Some"):
                        argsets = [x[3]]
                    elif x[0] == "call":
                        argsets = x[3][:1]
                    for a_ in argsets:
                        if tagc in a_ and "call:RwLock::write" in a_ and any(y.startswith("call:") and y.split("::")[-1] in ("get", "contains", "contains_key", "insert", "get_mut") for y in a_):
                            rechecked = True
                ctx.ob("R7", "%s#%s" % (short_id(f.id), cell[1]), rechecked,
                       what="%s looks a key up in %s under a read guard and, on a miss, adds it under a write guard without looking it "
                            "up again: two threads that miss together both add it (duplicate ids / entries; the first creator's "
                            "entries are filed under an orphaned id)" % (short_id(f.id), cn(cell)), where=f.loc(t["line"]))
    ctx.floor("R7", n7, 2, "get-or-create sites (read lookup, then write add)")

    # ---- R6 accounting symmetry
    rel = P.method("BufferManager", "GrantReleaser", "release")
    Wa = {a.cell for g in P.family(tr) for a in E.own_acc(g) if E.is_write(a) and a.how.startswith("atomic:") and a.cell[1] in ("allocated", "region_allocated")}
    Wr = {a.cell for g in P.family(rel) for a in E.own_acc(g) if E.is_write(a) and a.how.startswith("atomic:") and a.cell[1] in ("allocated", "region_allocated")}
    ctx.ob("R6", "BufferManager#allocate-release-cells", Wa == Wr and len(Wa) == 2,
           what="try_allocate adds to %s but release subtracts from %s: the accounting cannot return to zero"
                % (sorted(cn(c) for c in Wa), sorted(cn(c) for c in Wr)), where=rel.loc())
    # a grant records a size only when the manager's accounting has moved with it: in a grant method that reserves through the
    # releaser (try_allocate*), every write of the grant's own `size` is dominated by the reservation having succeeded, or
    # by a comparison that establishes the shrinking side. A write before the outcome is known leaves a refused grow
    # recorded: the grant later releases memory it never held, `allocated` under-counts and finally wraps below zero.
    n6 = 0
    for g in P.methods_of("MemoryGrant"):
        if g.kind == "closure":
            continue
        res = [bi for bi, t in g.calls() if (t.get("f") or callee_name(t)).split("::")[-1].startswith("try_allocate")]
        if not res:
            continue
        gx = FlowCx(P, g)
        k = 0
        for bi, t in g.calls():
            c = callee_name(t)
            if not ("atomic::Atomic" in c and c.split("::")[-1] in ("store", "swap", "fetch_add", "fetch_sub", "fetch_max", "fetch_min", "fetch_update",
                                                                    "compare_exchange", "compare_exchange_weak")):
                continue
            if not t["args"] or "cell:MemoryGrant.size" not in gx.tags(t["args"][0]):
                continue
            n6 += 1
            facts = gx.facts_at(bi)
            ok = any(x[0] == "call" and x[1].split("::")[-1].startswith("try_allocate") and x[2] is True for x in facts) or \
                any(x[0] == "cmp" and x[1] in ("Lt", "Le", "Eq") for x in facts) or \
                any(x[0] == "variant" and x[1].endswith("cmp::Ordering") and x[2] in ("Less", "Equal", "255", "-1", "0") for x in facts)
            ctx.ob("R6", "%s#size-write-after-outcome[%d]" % (short_id(g.id), k), ok,
                   what="%s writes the grant's size before the outcome of the reservation is known (the write is dominated neither by a "
                        "successful try_allocate* nor by the shrinking comparison): a refused grow stays recorded, the grant later "
                        "releases memory it never held and the manager's accounting under-counts, then wraps" % short_id(g.id),
                   where=g.loc(t["line"]))
            k += 1
    ctx.floor("R6", n6, 1, "writes of MemoryGrant.size in reserving methods")
    drop = P.method("MemoryGrant", "Drop", "drop")
    ctx.ob("R6", "MemoryGrant#drop-releases", rel.id in P.reach([drop]),
           what="dropping a MemoryGrant does not reach GrantReleaser::release", where=drop.loc())
