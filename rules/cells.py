"""State-cell accesses: which `Struct.field` a function touches and how (DESIGN §3.1/3.2).

own_accesses(P, fn) -> list of Access(cell=(owner, field), kind, how, block, line, ops)
  kind: 'R' | 'W' | 'RMW' (atomic read-modify-write) | 'LOCK_R' | 'LOCK_W' | 'PASS' (handed to a workspace fn)
  ops : for locks / &mut borrows / passes - the callee names applied to the guarded or borrowed data
        (forward taint), used to classify writes as add / destructive.
"""
import re
from collections import defaultdict, namedtuple

from .facts import LOCK_API, COLLECTION_MUT, place_fields, op_place, short_id

Access = namedtuple("Access", "cell kind how block line ops fn")

_ATOMIC = re.compile(r"^core::sync::atomic::Atomic\w*::(\w+)$")
_ATOMIC_KIND = {
    "load": "R", "store": "W", "swap": "RMW", "fetch_add": "RMW", "fetch_sub": "RMW", "fetch_max": "RMW",
    "fetch_min": "RMW", "fetch_or": "RMW", "fetch_and": "RMW", "fetch_xor": "RMW", "fetch_update": "RMW",
    "compare_exchange": "RMW", "compare_exchange_weak": "RMW", "fetch_nand": "RMW", "get_mut": "W",
    "into_inner": "R",
}
_DASHMAP_W = {"insert", "remove", "entry", "retain", "clear", "get_mut", "alter", "alter_all", "remove_if",
              "iter_mut", "try_entry", "shrink_to_fit", "try_get_mut"}

_SCALAR = re.compile(r"^(\(\)|bool|u8|u16|u32|u64|u128|usize|i8|i16|i32|i64|i128|isize|f32|f64|char|!)$")


def atomic_kind(callee):
    m = _ATOMIC.match(callee or "")
    return _ATOMIC_KIND.get(m.group(1)) if m else None


class FnFlow:
    """forward use chains inside one function (flow-insensitive)"""

    def __init__(self, fn):
        self.fn = fn
        self.uses = defaultdict(list)  # local -> [('stmt', bi, si, dst_place, rv) | ('arg', bi, term, argpos) | ('drop', bi, term)]
        for bi, b in enumerate(fn.blocks):
            if b["cl"]:
                continue
            for si, st in enumerate(b["s"]):
                pl, rv, ln = st
                k = rv[0]
                srcs = []
                if k == "use":
                    srcs = [rv[1]]
                elif k in ("ref", "raw"):
                    srcs = [["c", rv[2]]]
                elif k == "cast":
                    srcs = [rv[2]]
                elif k == "agg":
                    srcs = rv[4]
                elif k == "bin":
                    srcs = [rv[2], rv[3]]
                elif k == "un":
                    srcs = [rv[2]]
                elif k == "discr":
                    srcs = [["c", rv[1]]]
                elif k == "repeat":
                    srcs = [rv[1]]
                for s in srcs:
                    p = op_place(s)
                    if p is not None:
                        self.uses[p[0]].append(("stmt", bi, si, pl, rv, p))
            t = b["t"]
            if t["k"] == "call":
                for ai, a in enumerate(t["args"]):
                    p = op_place(a)
                    if p is not None:
                        self.uses[p[0]].append(("arg", bi, t, ai, p))
            elif t["k"] == "drop":
                self.uses[t["p"][0]].append(("drop", bi, t))
            elif t["k"] == "sw":
                p = op_place(t["d"])
                if p is not None:
                    self.uses[p[0]].append(("sw", bi, t))

    def forward_ops(self, start_locals, P=None, max_steps=4000):
        """taint start_locals forward; returns (ops, tainted_locals)
        ops: list of dict(callee, resolved, argpos, block, line, term)"""
        fn = self.fn
        tainted = set()
        work = list(start_locals)
        ops = []
        seen_calls = set()
        steps = 0
        while work and steps < max_steps:
            steps += 1
            l = work.pop()
            if l in tainted:
                continue
            tainted.add(l)
            for u in self.uses.get(l, ()):
                if u[0] == "stmt":
                    _, bi, si, dst, rv, src = u
                    if rv[0] in ("bin", "discr"):
                        continue
                    # assigning into a field of a local taints the local
                    work.append(dst[0])
                elif u[0] == "arg":
                    _, bi, t, ai, src = u
                    key = (bi, ai)
                    if key in seen_calls:
                        continue
                    seen_calls.add(key)
                    ops.append({"callee": t["f"] or "<indirect>", "resolved": t["r"], "rk": t["rk"], "argpos": ai,
                                "block": bi, "line": t["line"], "term": t})
                    dty = fn.local_ty(t["dst"][0])
                    if not _SCALAR.match(dty):
                        work.append(t["dst"][0])
                    # a `&mut` out-parameter style is ignored
        return ops, tainted


_TRANSPARENT_OWNERS = ("core::option::Option", "core::result::Result", "(tuple)", "?")


def _fields_in(pl):
    """field projections of a place, ignoring std wrapper enums and tuples (`(self.x as Some).0` is `self.x`)"""
    return [f for f in place_fields(pl) if not f[1].startswith(_TRANSPARENT_OWNERS)]


def own_accesses(P, fn, flow=None):
    """all cell accesses syntactically in fn (closures are separate functions)"""
    out = []
    flow = flow or FnFlow(fn)
    for bi, b in enumerate(fn.blocks):
        if b["cl"]:
            continue
        for si, st in enumerate(b["s"]):
            pl, rv, ln = st
            k = rv[0]
            # write through assignment to a place with a field projection
            fs = _fields_in(pl)
            if fs and k != "dead":
                for (name, owner) in fs:
                    out.append(Access((owner, name), "W", "assign", bi, ln, (), fn.id))
            if k == "use":
                p = op_place(rv[1])
                if p:
                    for (name, owner) in _fields_in(p):
                        out.append(Access((owner, name), "R", "use", bi, ln, (), fn.id))
            elif k in ("ref", "raw"):
                p = rv[2]
                fs2 = _fields_in(p)
                if not fs2:
                    continue
                mut = (rv[1] == "mut") or (k == "raw" and "Mut" in rv[1])
                # what happens to the reference?
                ops, _ = flow.forward_ops([pl[0]])
                kind, how = classify_ref_use(P, ops, mut)
                opnames = tuple(sorted(set(_opname(o) for o in ops)))
                # the innermost field is the one actually referenced; outer ones are traversed (read)
                for idx, (name, owner) in enumerate(fs2):
                    if idx == len(fs2) - 1:
                        out.append(Access((owner, name), kind, how, bi, ln, opnames, fn.id))
                    else:
                        out.append(Access((owner, name), kind if kind in ("W", "LOCK_W", "RMW") else "R", "via", bi, ln, opnames, fn.id))
            elif k in ("cast", "bin", "un", "discr", "agg", "repeat"):
                if k == "cast":
                    srcs = [rv[2]]
                elif k == "bin":
                    srcs = [rv[2], rv[3]]
                elif k == "un":
                    srcs = [rv[2]]
                elif k == "agg":
                    srcs = rv[4]
                elif k == "repeat":
                    srcs = [rv[1]]
                else:
                    srcs = [["c", rv[1]]]
                for s in srcs:
                    p = op_place(s)
                    if p:
                        for (name, owner) in _fields_in(p):
                            out.append(Access((owner, name), "R", "use", bi, ln, (), fn.id))
        t = b["t"]
        if t["k"] == "call":
            for a in t["args"]:
                p = op_place(a)
                if p:
                    for (name, owner) in _fields_in(p):
                        out.append(Access((owner, name), "R", "arg", bi, t["line"], (), fn.id))
        elif t["k"] == "sw":
            p = op_place(t["d"])
            if p:
                for (name, owner) in _fields_in(p):
                    out.append(Access((owner, name), "R", "switch", bi, t["line"], (), fn.id))
    return out


def _opname(o):
    """full callee path of a forward op (resolved impl when rustc resolved it)"""
    return o["resolved"] if (o["resolved"] and o["rk"] in ("item", "closure_once")) else o["callee"]


def opshort(c):
    return c.rsplit("::", 1)[-1]


def classify_ref_use(P, ops, mut):
    """decide what a reference to a cell is used for, from the calls it (and values derived from it)
    flows into"""
    kind = None
    how = "ref"
    for o in ops:
        c = o["callee"]
        if o["argpos"] != 0:
            continue
        if c in LOCK_API:
            mode, lk = LOCK_API[c]
            k2 = "LOCK_W" if mode == "W" else "LOCK_R"
            if lk == "nolock":
                k2 = "W"
            kind = _max_kind(kind, k2)
            how = "lock"
            continue
        ak = atomic_kind(c)
        if ak:
            kind = _max_kind(kind, ak)
            how = "atomic:" + c.split("::")[-1]
            continue
        if c.startswith("dashmap::"):
            nm = c.split("::")[-1]
            kind = _max_kind(kind, "W" if nm in _DASHMAP_W else "R")
            continue
    if kind is None:
        # plain reference: &mut => W; & => R unless it is handed to a workspace function (PASS)
        if mut:
            return "W", "refmut"
        for o in ops:
            if o["argpos"] == 0 and o["resolved"] and o["resolved"] in P.fns:
                return "PASS", "pass"
            if o["argpos"] == 0 and o["rk"] in ("virtual", "unresolved"):
                return "PASS", "pass"
        return "R", "ref"
    return kind, how


_ORDER = {"R": 0, "LOCK_R": 1, "PASS": 2, "RMW": 3, "W": 4, "LOCK_W": 5}


def _max_kind(a, b):
    if a is None:
        return b
    return a if _ORDER[a] >= _ORDER[b] else b


class Effects:
    """whole-program transitive read/write sets over cells"""

    def __init__(self, P):
        self.P = P
        self.own = {}
        self.flows = {}
        self._w = {}
        self._r = {}

    def flow(self, fn):
        f = self.flows.get(fn.id)
        if f is None:
            f = self.flows[fn.id] = FnFlow(fn)
        return f

    def own_acc(self, fn):
        a = self.own.get(fn.id)
        if a is None:
            a = self.own[fn.id] = own_accesses(self.P, fn, self.flow(fn))
        return a

    def mutators(self):
        """fn ids that (transitively) write state owned by their own `impl Self` type - used to decide
        whether handing `&self.field` to a component method is a write of that field"""
        if getattr(self, "_mut", None) is not None:
            return self._mut
        P = self.P
        M = set()
        cand = [f for f in P.fns.values() if f.kind != "closure" and f.impl_self]
        changed = True
        while changed:
            changed = False
            for f in cand:
                if f.id in M:
                    continue
                hit = False
                for g in P.family(f):
                    for a in self.own_acc(g):
                        if a.cell[0] != f.impl_self:
                            continue
                        if a.kind in ("W", "RMW", "LOCK_W") and a.how != "via":
                            hit = True
                        elif a.kind == "PASS" and any(o in M for o in a.ops):
                            hit = True
                        elif a.kind in ("W", "LOCK_W") and a.how == "via":
                            hit = True
                        if hit:
                            break
                    if hit:
                        break
                    for bi, t in g.calls():
                        r = t["r"] if t["rk"] == "item" else None
                        if r in M and P.fns[r].impl_self == f.impl_self:
                            hit = True
                            break
                    if hit:
                        break
                if hit:
                    M.add(f.id)
                    changed = True
        self._mut = M
        return M

    def is_write(self, a):
        if a.kind in ("W", "RMW", "LOCK_W"):
            return True
        if a.kind == "PASS":
            M = self.mutators()
            return any(o in M for o in a.ops)
        return False

    def writes_own(self, fn):
        """cells written directly by fn: W/RMW/LOCK_W (a write lock counts as a write) and PASS of the
        cell to a component method that mutates its receiver"""
        return {a.cell for a in self.own_acc(fn) if self.is_write(a)}

    def reads_own(self, fn):
        return {a.cell for a in self.own_acc(fn) if a.kind in ("R", "RMW", "LOCK_R", "LOCK_W", "PASS")}

    def closure_sets(self, roots, stop=None, edge_filter=None):
        """(W*, R*) over everything reachable from roots"""
        W, R = set(), set()
        for fid in self.P.reach(roots, stop=stop, edge_filter=edge_filter):
            fn = self.P.fns[fid]
            W |= self.writes_own(fn)
            R |= self.reads_own(fn)
        return W, R

    def writers_of(self, cell, within=None):
        out = []
        for fid, fn in self.P.fns.items():
            if within is not None and fid not in within:
                continue
            for a in self.own_acc(fn):
                if a.cell == cell and self.is_write(a):
                    out.append(a)
        return out

    def accessors_of(self, cell, within=None):
        out = []
        for fid, fn in self.P.fns.items():
            if within is not None and fid not in within:
                continue
            for a in self.own_acc(fn):
                if a.cell == cell:
                    out.append(a)
        return out
