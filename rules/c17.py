"""C17 - parallel / push / spilling execution (two clauses; DESIGN §5 C17)."""
from .facts import short_id, CheckerError, must_pass
from .flow import FlowCx, callee_name
from . import common
from . import c16

EXPLANATION = (
    "Decides two structural clauses: (R1) spill artefacts are removed on every exit of their owner - every non-test "
    "creation of a spill file goes through the manager's tracked create_file (the path is pushed to the tracked list "
    "before the file exists), the manager's cleanup removes every tracked file, and each owner of spill state "
    "(SpillManager, AsyncSpillManager, ExternalSort, PartitionedState) has a Drop impl that reaches file removal; "
    "(R2) the spill codec's writer and reader agree (same rule as C16-R4). (R3) the comparator that sorts spilled runs and the one that merges them (found by use) treat direction and NULL placement alike. "
    "(R4) an element pulled from an iterator an operator keeps across calls is used before any return; (R5) what an intermediate push operator collected is forwarded before its stop request is propagated. "
    "(R7) the spilling sort's key conversion reads every field of the operator's sort keys; (R9) the parallel chunk sources compute their ranges and read their chunks with row counts of one kind (visible rows); (R8) morsel generation walks 0..total in steps of the morsel size with each end capped at total, and a split builds [start,p) and [p,end) from the same p. (R6) a partial-result type's merge(self, other) folds in every field that accumulation updates, from the same field of the other side, with the same arithmetic / comparison helper. "
    "Equality of results across strategies, "
    "worker counts or memory budgets is not decided.")
ASSUMPTIONS = ["std::fs::remove_file / tokio remove_file are the removal primitives"]

REMOVE = ("std::fs::remove_file", "tokio::fs::remove_file::remove_file", "tokio::fs::remove_file", "std::fs::remove_dir_all",
          "tokio::fs::remove_dir_all::remove_dir_all")
OWNERS = ["grafeo_core::execution::spill::manager::SpillManager", "grafeo_core::execution::spill::async_manager::AsyncSpillManager",
          "grafeo_core::execution::spill::external_sort::ExternalSort", "grafeo_core::execution::spill::partition::PartitionedState"]


def run(ctx):
    P = ctx.program()
    removers = {f.id for f in P.fns.values() if any(callee_name(t) in REMOVE for bi, t in f.calls())}
    ctx.floor("R1", len(removers), 3, "functions removing spill files")
    reach_rm = P.callers_closure(removers)
    for o in OWNERS:
        d = [f for f in P.fns.values() if f.impl_trait == "core::ops::drop::Drop" and f.impl_self == o and f.id.endswith("::drop") and f.kind != "closure"]
        ok = bool(d) and d[0].id in reach_rm
        if not ok and o.split("::")[-1] not in ("SpillManager", "AsyncSpillManager"):
            # an owner that only holds files created through a shared, tracking manager leaves their removal to that
            # manager's Drop (checked above for the managers themselves)
            ftys = [f[1] for v in P.adts[o]["variants"] for f in v["fields"]]
            if any("Arc<grafeo_core::execution::spill::manager::SpillManager" in t for t in ftys):
                ctx.ob("R1", "%s#drop-removes" % o.split("::")[-1], True,
                       what="files are created through and tracked by the shared SpillManager, whose Drop removes them", where=P.adts[o]["file"])
                continue
        ctx.ob("R1", "%s#drop-removes" % o.split("::")[-1], ok,
               what="%s %s: its spill files outlive it" % (o.split("::")[-1], "has no Drop impl" if not d else "has a Drop impl that does not reach file removal"),
               where=(d[0].loc() if d else P.adts[o]["file"]))
    # creation sites
    sf_new = P.fn("spill::file::SpillFile::new")
    cf = P.fn("SpillManager::create_file")
    n = 0
    for f in P.fns.values():
        for bi, t in f.calls():
            if callee_name(t) == sf_new.id:
                n += 1
                ctx.ob("R1", "SpillFile::new@%s" % short_id(f.id), f.id == cf.id,
                       what="%s creates a spill file directly instead of through SpillManager::create_file: the file is not tracked and "
                            "nothing removes it" % short_id(f.id), where=f.loc(t["line"]))
    ctx.floor("R1", n, 1, "spill file creation sites")
    # create_file tracks the path before creating the file
    cx = FlowCx(P, cf)
    push = [bi for bi, t in cf.calls() if callee_name(t).split("::")[-1] == "push" and "cell:SpillManager.active_files" in cx.tags(t["args"][0])]
    new = [bi for bi, t in cf.calls() if callee_name(t) == sf_new.id]
    ok = bool(push) and bool(new) and all(any(cf.dominates(p, b) for p in push) for b in new)
    ctx.ob("R1", "SpillManager::create_file#tracks-before-create", ok,
           what="SpillManager::create_file does not record the path in active_files before creating the file: an error or a panic "
                "in between leaks the file", where=cf.loc())
    # cleanup removes what is tracked
    cl = P.fn("SpillManager::cleanup")
    lx = FlowCx(P, cl)
    ok = False
    for bi, t in cl.calls():
        if callee_name(t) in REMOVE:
            ok = "cell:SpillManager.active_files" in lx.tags(t["args"][0])
    ctx.ob("R1", "SpillManager::cleanup#removes-tracked", ok,
           what="SpillManager::cleanup does not remove the files recorded in active_files", where=cl.loc())
    # ---- R3 run generation and run merge order rows the same way: the spilling sort sorts each run with
    # push::sort::compare_rows and merges the runs with spill::external_sort::compare_rows. A run is only a valid merge
    # input if both comparators define the same order; in particular a Descending key must reverse the same thing in
    # both (the whole per-key ordering including NULL placement, or only the value comparison).
    # the two comparators are found by use, not by name: what the spilling operator's sort closures call, and what the
    # merge heap's Ord impl and the merge closures call (a refactor that shares one comparator leaves one function)
    def grafeo_callees(fns):
        return {callee_name(t) for g in fns for bi, t in g.calls()
                if callee_name(t).startswith("grafeo_core::") and callee_name(t) in P.fns and P.fns[callee_name(t)].argc == 3}
    run_side = [g for g in P.fns.values() if g.kind == "closure" and "push::sort::SpillableSortPushOperator" in g.id]
    merge_side = [g for g in P.fns.values() if g.id == "<grafeo_core::execution::spill::external_sort::HeapEntry as core::cmp::Ord>::cmp"
                  or (g.kind == "closure" and "external_sort::ExternalSort::" in g.id)]
    rc, mc = grafeo_callees(run_side), grafeo_callees(merge_side)
    ctx.floor("R3", len(rc), 1, "row comparators used to sort spilled runs")
    ctx.floor("R3", len(mc), 1, "row comparators used to merge spilled runs")
    if rc == mc and len(rc) == 1:
        ctx.ob("R3", "sort-run-vs-merge-comparator", True, what="runs are sorted and merged by the same function", where=P.fns[min(rc)].loc())
        sibs = []
    elif len(rc) != 1 or len(mc) != 1:
        raise CheckerError("C17-R3: expected one comparator on each side, found %s / %s" % (sorted(rc), sorted(mc)))
    else:
        sibs = [P.fns[min(rc)], P.fns[min(mc)]]
    sigs = []
    for f in sibs:
        fx = FlowCx(P, f)
        revs = [(bi, t) for bi, t in f.calls() if callee_name(t).endswith("Ordering::reverse")]
        sig = set()
        for bi, t in revs:
            tg = fx.tags(t["args"][0])
            sig |= {x for x in tg if x.startswith("agg:Ordering::")}
            if any(x.startswith("call:") and x.endswith("compare_values") for x in tg):
                sig.add("value-comparison")
        # what the direction switch guards
        dirs = sorted({x[2] for bi, t in revs for x in fx.facts_at(bi) if x[0] == "variant" and x[1].endswith("SortDirection")})
        nulls = any(x.startswith("cell:SortKey.null_order") for b in f.blocks if not b["cl"] and b["t"]["k"] == "sw" for x in fx.tags(b["t"]["d"]))
        sigs.append((frozenset(sig), tuple(dirs), nulls, len(revs)))
    if sibs:
      ctx.floor("R3", sum(s_[3] for s_ in sigs), 2, "Ordering::reverse sites in the run / merge comparators")
      ctx.ob("R3", "sort-run-vs-merge-comparator", sigs[0] == sigs[1],
             what="the comparator that sorts spilled runs and the comparator that merges them differ in what a Descending key "
                  "reverses (%s vs %s): runs are not ordered the way the merge expects, so a spilled sort returns rows in a "
                  "different order than the in-memory sort" % (sorted(sigs[0][0]), sorted(sigs[1][0])), where=sibs[1].loc())

    # ---- R4 elements pulled from a resumable iterator are consumed before a return
    resumable_items_consumed(ctx, P, "R4")

    # ---- R5 what an intermediate operator collected is forwarded before a stop is propagated
    collected_output_forwarded(ctx, P, "R5")

    # ---- R7 the spilling sort hands every part of its sort keys to the external sort
    ms = P.fn("SpillableSortPushOperator::maybe_spill")
    SK = "grafeo_core::execution::operators::push::sort::SortKey"
    if SK not in P.adts:
        raise CheckerError("C17-R7: push::sort::SortKey not found")
    readf = set()
    fam = {}
    work = list(P.family(ms))
    smod = ms.id.rsplit("::", 2)[0] + "::"
    while work:
        g = work.pop()
        if g.id in fam:
            continue
        fam[g.id] = g
        for bi_, t_ in g.calls():
            c_ = callee_name(t_)
            if c_ in P.fns and c_.startswith(smod) and c_ not in fam and P.fns[c_].impl_self is None:
                work.extend(P.family(P.fns[c_]))      # free helper functions of the module (a conversion moved out of the closure)
            for a_ in t_["args"]:
                # a helper passed by name (`.map(to_spill_key)`) is an operand constant, not a call of this body
                if a_[0] == "fn" and isinstance(a_[1], str):
                    for cand in (a_[1], a_[1].split("<")[0]):
                        if cand in P.fns and cand.startswith(smod) and cand not in fam:
                            work.extend(P.family(P.fns[cand]))
    TK = "spill::external_sort::SortKey"
    conv = [g for g in fam.values() if g.id == ms.id or TK in g.local_ty(0)]
    ctx.floor("R7", len(conv) - 1, 1, "functions / closures that produce the external sort's key type from the operator's keys")
    for g in conv:
        if g.id == ms.id:
            continue        # the body of maybe_spill itself also sorts the buffer with the full keys; only the producers of the external keys count
        for b in g.blocks:
            if b["cl"]:
                continue
            for pl, rv, ln in b["s"]:
                for q in _places_of_rv(rv) if rv[0] != "dead" else []:
                    m_ = _tfield(q, SK)
                    if m_:
                        readf.add(m_)
            t_ = b["t"]
            if t_["k"] == "sw" and isinstance(t_["d"], list) and len(t_["d"]) > 1 and isinstance(t_["d"][1], list) and _tfield(t_["d"][1], SK):
                readf.add(_tfield(t_["d"][1], SK))
    for fl in P.adts[SK]["variants"][0]["fields"]:
        ctx.ob("R7", "SpillableSortPushOperator::maybe_spill#key.%s" % fl[0], fl[0] in readf,
               what="the spilling sort builds the external sort's keys without reading `%s` of its own sort keys: runs are sorted with the "
                    "requested %s but merged with a default, so the spilled result is ordered differently from the in-memory sort" % (fl[0], fl[0]),
               where=ms.loc())

    # ---- R8 morsels tile the input
    morsels_tile_the_input(ctx, P, "R8")
    # ---- R9 the parallel chunk sources count rows in one coordinate system
    chunk_source_one_coordinate_system(ctx, P, "R9")

    # ---- R6 merging partial results covers what accumulation updates
    merge_covers_accumulation(ctx, P, "R6")

    # ---- R2 = C16-R4 (spill codec)
    sub = type("Sub", (), {})()
    obs_before = len(ctx.obs)
    c16_ctx = ctx
    # run only the R4 part of c16 by evaluating it and keeping its R4 obligations
    tmp_obs = []
    class Shim:
        def __init__(self, base):
            self.base = base
            self.analysed = base.analysed
        def program(self, *a):
            return self.base.program(*a)
        def effects(self, *a):
            return self.base.effects(*a)
        def ob(self, rule, instance, ok, **kw):
            if rule == "R4":
                self.base.ob("R2", instance, ok, **kw)
            return ok
        def floor(self, rule, found, expected, what):
            if rule == "R4":
                self.base.floor("R2", found, expected, what)
        def note(self, s):
            pass
    c16.run(Shim(ctx))


def resumable_items_consumed(ctx, P, rule):
    """An operator that produces its output in several calls keeps an iterator in a field and pulls from it with
    `for x in it.by_ref()`. An element that has been pulled is gone from the iterator: every path from the pull to a
    return must have used the element (handed it, or a part of it, to a call). A `return` between the pull and the use -
    a capacity check moved to the top of the loop body - silently drops one element per output chunk."""
    n = 0
    for f in sorted(P.fns.values(), key=lambda f: f.id):
        if not (f.id.startswith(("grafeo_core::execution::", "<grafeo_core::execution::"))) or "::tests::" in f.id or f.kind == "closure":
            continue
        fx = None
        for bi, t in f.calls():
            cn = callee_name(t)
            if not (cn.endswith("::next") and cn.startswith("<&mut ")) or not t["args"]:
                continue          # `for x in it.by_ref()` pulls through `<&mut I as Iterator>::next`
            fx = fx or FlowCx(P, f)
            rt = fx.tags(t["args"][0])
            if not ("call:Iterator::by_ref" in rt and any(x.startswith("cell:") for x in rt)):
                continue          # not a resumable iterator kept in a field
            n += 1
            item = t["dst"][0]
            derived = {item}
            changed = True
            while changed:
                changed = False
                for b in f.blocks:
                    if b["cl"]:
                        continue
                    for st in b["s"]:
                        pl, rv, ln = st
                        src = None
                        if rv[0] == "use" and rv[1][0] in ("m", "c"):
                            src = rv[1][1]
                        elif rv[0] == "ref":
                            src = rv[2]
                        if src and src[0] in derived and pl[0] not in derived:
                            derived.add(pl[0])
                            changed = True
            consume = set()
            for b2, t2 in f.calls():
                if b2 == bi:
                    continue
                if any(a[0] in ("m", "c") and a[1] and a[1][0] in derived for a in t2["args"]):
                    consume.add(b2)
            # blocks entered with the element in hand
            some = [b for b in range(len(f.blocks)) if not f.blocks[b]["cl"] and
                    any(x[0] == "variant" and x[1] == "core::option::Option" and x[2] == "Some" and x[4] in _switch_blocks_after(f, bi)
                        for x in fx.facts_at(b))]
            entries = [b for b in some if any(p not in some for p in f.pred()[b])]
            ok = bool(entries) and bool(consume) and all(must_pass(f, b, consume, set(f.exits())) for b in entries)
            ctx.ob(rule, "%s#pulled-element-consumed" % short_id(f.id), ok,
                   what="%s can return after pulling an element from the iterator it keeps across calls and before using it: that "
                        "element is never emitted (one group / row lost per output chunk), so the result depends on the chunk capacity "
                        "and differs from the other execution strategies" % short_id(f.id), where=f.loc(t["line"]))
    ctx.floor(rule, n, 1, "pulls from resumable iterators kept in operator fields")


def _switch_blocks_after(f, call_block):
    """switch blocks that test the result of the call ending call_block (the block the call returns to, and its successors
    up to the first switch)"""
    out = set()
    b = f.blocks[call_block]["t"].get("t")
    seen = set()
    while b is not None and b not in seen:
        seen.add(b)
        t = f.blocks[b]["t"]
        if t["k"] == "sw":
            out.add(b)
            break
        nxt = f.succ()[b]
        b = nxt[0] if len(nxt) == 1 else None
    return out


def collected_output_forwarded(ctx, P, rule):
    """A pipeline runs an intermediate push operator against a ChunkCollector and hands what was collected to the next
    operator. On every path from that push to a return, the collector is either known to be empty or has been taken
    (into_single_chunk / into_chunks): an early return on the operator's stop request leaves the rows it produced with
    that very call in the collector - a limit in the middle of a chain loses its last chunk."""
    n = 0
    for f in sorted(P.fns.values(), key=lambda f: f.id):
        if not f.id.startswith("grafeo_core::execution::") or "::tests::" in f.id or f.kind == "closure":
            continue
        fx = None
        for bi, t in f.calls():
            if not callee_name(t).endswith("PushOperator::push") or len(t["args"]) < 3:
                continue
            fx = fx or FlowCx(P, f)
            sink_ty = fx.tags(t["args"][2])
            # the sink argument is a local ChunkCollector (created in this function)
            if not any(x.startswith("call:ChunkCollector::new") or x == "call:ChunkCollector::new" for x in sink_ty):
                continue
            n += 1
            taken = {b for b, t2 in f.calls() if callee_name(t2).split("::")[-1] in ("into_single_chunk", "into_chunks", "take_chunks")
                     and "ChunkCollector" in callee_name(t2)}
            empty = {b for b in range(len(f.blocks)) if not f.blocks[b]["cl"] and
                     any(x[0] == "call" and x[1].endswith("ChunkCollector::is_empty") and x[2] is True for x in fx.facts_at(b))}
            # the error return of the `?` on the push itself is not a lost-output path
            errs = {b for b in range(len(f.blocks)) if not f.blocks[b]["cl"] and
                    any(x[0] == "variant" and x[2] in ("Break", "Err") and x[1] in ("core::ops::control_flow::ControlFlow", "core::result::Result")
                        for x in fx.facts_at(b))}
            nxt = t.get("t")
            ok = nxt is not None and must_pass(f, nxt, taken | empty | errs, set(f.exits()))
            ctx.ob(rule, "%s#forwards-collected-output[%d]" % (short_id(f.id), n), ok,
                   what="%s can return after an intermediate operator has pushed rows into the collector without forwarding them "
                        "(a path to the return on which the collector is neither empty nor taken): an operator that emits and asks "
                        "to stop in the same call, like a limit, loses its last chunk unless it is the last operator"
                        % short_id(f.id), where=f.loc(t["line"]))
    ctx.floor(rule, n, 3, "pushes into an intermediate ChunkCollector")


_ARITH = {"AddWithOverflow": "Add", "SubWithOverflow": "Sub", "MulWithOverflow": "Mul", "Add": "Add", "Sub": "Sub", "Mul": "Mul",
          "AddUnchecked": "Add", "SubUnchecked": "Sub", "MulUnchecked": "Mul"}


def _tfield(pl, T):
    """name of the field of T that the place goes through (None if it does not)"""
    for p in pl[1:]:
        if isinstance(p, str) and p.startswith("f:") and p.split(":", 2)[2] == T:
            return p.split(":", 2)[1]
    return None


def _places_of_rv(rv):
    out = []
    def walk(x):
        if isinstance(x, list):
            if len(x) == 2 and x[0] in ("m", "c") and isinstance(x[1], list):
                out.append(x[1])
            else:
                for y in x:
                    walk(y)
    walk(rv[1:])
    if rv[0] in ("ref", "discr", "len") :
        for y in rv[1:]:
            if isinstance(y, list) and y and isinstance(y[0], int):
                out.append(y)
    return out


def field_profile(P, f, T, root=None):
    """per field of T: {'w': written?, 'ops': arithmetic applied to it, 'helpers': workspace functions handed a reference to it,
    'reads_from': roots whose same field is read}. root: only places rooted at this local count as writes (None = any)."""
    prof = {}
    def get(n):
        return prof.setdefault(n, {"w": False, "ops": set(), "helpers": set(), "other": False})
    refs = {}      # local -> field it references
    for b in f.blocks:
        if b["cl"]:
            continue
        for pl, rv, ln in b["s"]:
            if rv[0] == "dead":
                continue
            n = _tfield(pl, T)
            if n and len(pl) > 1 and (root is None or pl[0] == root):
                get(n)["w"] = True
                if rv[0] == "bin" and rv[1] in _ARITH:
                    get(n)["ops"].add(_ARITH[rv[1]])
            if rv[0] == "bin" and rv[1] in _ARITH:
                for q in _places_of_rv(rv):
                    m = _tfield(q, T)
                    if m and (root is None or q[0] == root):
                        get(m)["ops"].add(_ARITH[rv[1]])
            if rv[0] == "ref" and isinstance(rv[2], list):
                m = _tfield(rv[2], T)
                if m and len(pl) == 1:
                    refs[pl[0]] = (m, rv[2][0], rv[1])
                    if rv[1] == "mut" and (root is None or rv[2][0] == root):
                        get(m)["w"] = True
            if rv[0] in ("use", "ref") and len(pl) == 1:
                for q in _places_of_rv(rv):
                    if len(q) >= 1 and q[0] in refs and not _tfield(q, T):
                        refs.setdefault(pl[0], refs[q[0]])
        t = b["t"]
        if t["k"] == "call":
            n = _tfield(t["dst"], T)
            if n and (root is None or t["dst"][0] == root):
                get(n)["w"] = True
            c = callee_name(t)
            for a in t["args"]:
                if a[0] in ("m", "c") and isinstance(a[1], list) and a[1] and a[1][0] in refs and len(a[1]) == 1:
                    m, r0, kind = refs[a[1][0]]
                    if c in P.fns and P.fns[c].kind != "closure" and c.startswith("grafeo_") and (root is None or r0 == root):
                        get(m)["helpers"].add(c.split("::")[-1])
        if t["k"] == "drop":
            pass
    return prof


def merge_covers_accumulation(ctx, P, rule):
    """Partial results of parallel workers are combined with `merge(&mut self, other)`. The combination equals sequential
    accumulation only if merge folds in every field that accumulation updates, takes it from the same field of `other`,
    and combines it with the operation accumulation uses (a sum is added, a minimum goes through the same comparison
    helper). A field left out of merge silently keeps the first worker's partial value."""
    n = 0
    for f in sorted(P.fns.values(), key=lambda f: f.id):
        name = f.id.split("::")[-1]
        if name not in ("merge", "merge_from") or f.kind == "closure" or f.argc != 2 or "::tests::" in f.id:
            continue
        T = f.impl_self
        if not T or T not in P.adts or not f.id.startswith(("grafeo_core::execution::", "<grafeo_core::execution::")):
            continue
        oty = f.local_ty(2)
        if T not in oty:
            continue
        mp = field_profile(P, f, T, root=1)
        mfields = {k for k, v in mp.items() if v["w"]}
        # does merge read other's field k?
        oread = set()
        for b in f.blocks:
            if b["cl"]:
                continue
            for pl, rv, ln in b["s"]:
                for q in _places_of_rv(rv):
                    if q and q[0] == 2 and _tfield(q, T):
                        oread.add(_tfield(q, T))
            t = b["t"]
            if t["k"] == "call":
                for a in t["args"]:
                    if a[0] in ("m", "c") and isinstance(a[1], list) and a[1] and a[1][0] == 2 and _tfield(a[1], T):
                        oread.add(_tfield(a[1], T))
            if t["k"] == "sw" and isinstance(t["d"], list) and len(t["d"]) > 1 and isinstance(t["d"][1], list) and t["d"][1] and t["d"][1][0] == 2 and _tfield(t["d"][1], T):
                oread.add(_tfield(t["d"][1], T))
        # accumulation sites anywhere in the workspace
        acc = {}
        for g in P.fns.values():
            if g.id == f.id or "::tests::" in g.id:
                continue
            gn = g.id.split("::")[-1]
            if gn in ("new", "default", "clone", "clear", "reset", "fmt") or gn.startswith(("with_", "finalize")):
                continue
            gp = field_profile(P, g, T, root=None)
            for k, v in gp.items():
                if v["w"]:
                    a = acc.setdefault(k, {"ops": set(), "helpers": set(), "fns": set()})
                    a["ops"] |= v["ops"]
                    a["helpers"] |= v["helpers"]
                    a["fns"].add(short_id(g.id))
        if not acc:
            continue
        n += 1
        tn = T.split("::")[-1]
        for k in sorted(acc):
            inst = "%s::%s#%s" % (tn, name, k)
            if k not in mfields:
                ctx.ob(rule, inst, False, what="%s::%s does not fold in the field `%s`, which %s update(s): the merged partial result keeps "
                       "only this worker's value, so a parallel run differs from the sequential one" % (tn, name, k, ", ".join(sorted(acc[k]["fns"]))), where=f.loc())
                continue
            ok = k in oread
            why = "does not take `%s` from the other partial result" % k
            if ok and acc[k]["ops"] and not (acc[k]["ops"] <= mp[k]["ops"]):
                ok = False
                why = "combines `%s` with %s where accumulation uses %s" % (k, sorted(mp[k]["ops"]) or "an assignment", sorted(acc[k]["ops"]))
            if ok and acc[k]["helpers"] != mp[k]["helpers"] and (acc[k]["helpers"] or mp[k]["helpers"]):
                ok = False
                why = "decides `%s` through %s where accumulation goes through %s" % (k, sorted(mp[k]["helpers"]) or "no helper", sorted(acc[k]["helpers"]) or "no helper")
            ctx.ob(rule, inst, ok, what="%s::%s %s: merged partial results differ from sequential accumulation" % (tn, name, why), where=f.loc())
    ctx.floor(rule, n, 2, "mergeable partial-result types with accumulation sites")


def morsels_tile_the_input(ctx, P, rule):
    """Parallel execution hands every row to exactly one worker only if the morsels tile [0, total): generation walks
    the range 0..total in steps of the morsel size and caps each end at total; a split hands the left half [start, p)
    and the right half [p, end) with the very same p. Any other arithmetic on the bounds (a -1, a second +size) loses
    or duplicates rows at morsel borders - for particular sizes only."""
    sp = P.fn("Morsel::split_at")
    sx = FlowCx(P, sp)
    halves = []
    for bi, b in enumerate(sp.blocks):
        if b["cl"]:
            continue
        for pl, rv, ln in b["s"]:
            if rv[0] == "agg" and rv[1] == "adt" and rv[2].endswith("parallel::morsel::Morsel"):
                halves.append({n.strip('"'): frozenset(sx.tags(op)) for n, op in zip(rv[5], rv[4])} | {"_ln": ln})
    ctx.floor(rule, len(halves), 2, "Morsel literals in split_at")
    arith = lambda tg: {x for x in tg if x.startswith("bin:") or x.startswith("const:")}
    if len(halves) >= 2:
        a, b = halves[0], halves[1]
        if "cell:Morsel.end_row" in a["end_row"]:
            a, b = b, a
        ok = a["end_row"] == b["start_row"] and not (arith(a["start_row"]) or arith(b["end_row"])) \
            and "cell:Morsel.start_row" in a["start_row"] and "cell:Morsel.end_row" in b["end_row"]
        ctx.ob(rule, "Morsel::split_at#halves-share-split-point", ok,
               what="Morsel::split_at does not build [start, p) and [p, end) from the same p and the untouched outer bounds: rows at the "
                    "split point are processed twice or not at all", where=sp.loc(a["_ln"]))
    gm = P.fn("morsel::generate_morsels")
    gx = FlowCx(P, gm)
    names = {nm: l for l, nm in gm.names().items() if 1 <= l <= gm.argc}
    tot, size = "param:%d" % names.get("total_rows", -1), "param:%d" % names.get("morsel_size", -1)
    steps = [(bi, t) for bi, t in gm.calls() if callee_name(t).endswith("step_by") or (t.get("f") or "").endswith("Iterator::step_by")]
    news = [(bi, t) for bi, t in gm.calls() if callee_name(t).endswith("Morsel::new")]
    ctx.floor(rule, len(steps), 1, "stepping range in generate_morsels")
    ctx.floor(rule, len(news), 1, "Morsel::new in generate_morsels")
    for bi, t in steps:
        r, st = gx.tags(t["args"][0]), gx.tags(t["args"][1])
        ok = "agg:Range::Range" in r and "const:0" in r and tot in r and not any(x.startswith("bin:") for x in r) \
            and st == {x for x in st if not x.startswith("bin:")} and size in st
        ctx.ob(rule, "generate_morsels#range-0-total-step-size", ok,
               what="generate_morsels does not walk exactly 0..total_rows in steps of morsel_size", where=gm.loc(t["line"]))
    for bi, t in news:
        s_, e_ = gx.tags(t["args"][2]), gx.tags(t["args"][3])
        ok = not any(x.startswith("bin:") for x in s_) and "call:Iterator::step_by" in s_ \
            and {x for x in e_ if x.startswith("bin:")} <= {"bin:AddWithOverflow", "bin:Add"} and "call:Ord::min" in e_ and tot in e_ and size in e_
        ctx.ob(rule, "generate_morsels#end-is-start-plus-size-capped", ok,
               what="a generated morsel does not span [start, min(start + morsel_size, total_rows)): neighbouring morsels overlap or leave a gap",
               where=gm.loc(t["line"]))


def chunk_source_one_coordinate_system(ctx, P, rule):
    """ParallelChunkSource computes the morsel ranges from per-chunk row counts; PartitionedChunkSource walks those ranges
    with chunk.len() and chunk.slice(), which count *visible* rows (the selection vector applied). Both sides must count the
    same thing: if the ranges are computed from physical row counts (total_row_count) while the reader measures visible
    rows, chunks that carry a selection vector are cut short and a parallel run returns fewer rows than a sequential one."""
    VIS, PHYS = {"len", "row_count"}, {"total_row_count"}
    uses = []
    for f in P.fns.values():
        if "parallel::source" not in f.id or "::tests::" in f.id:
            continue
        for bi, t in f.calls():
            c = callee_name(t)
            if "chunk::DataChunk::" in c and c.split("::")[-1] in VIS | PHYS:
                uses.append((f, t["line"], c.split("::")[-1]))
            for a in t["args"]:
                if a[0] == "fn" and "chunk::DataChunk::" in str(a[1]) and str(a[1]).split("::")[-1] in VIS | PHYS:
                    uses.append((f, t["line"], str(a[1]).split("::")[-1]))
    ctx.floor(rule, len(uses), 2, "row-count uses in the parallel chunk sources")
    phys = [u for u in uses if u[2] in PHYS]
    ctx.ob(rule, "parallel::source#visible-row-counts", not phys or len(phys) == len(uses),
           what="the parallel chunk sources mix visible row counts (len / row_count, which slice() uses) with physical ones (%s in %s): "
                "morsel ranges and the reader disagree on chunks that carry a selection vector, and rows are lost"
                % (phys[0][2] if phys else "", short_id(phys[0][0].id) if phys else ""), where=(phys[0][0].loc(phys[0][1]) if phys else ""))
