"""C13 - the triple store behaves as a set (store clauses only; DESIGN §5 C13)."""
from .facts import short_id, CheckerError
from .flow import FlowCx, callee_name, bool_cases
from . import common

EXPLANATION = (
    "Decides the store-level clauses on the MIR of RdfStore: (R1) insert, remove and clear write the same four "
    "structures (primary set + subject/predicate/object index), the object index under its config flag, and each "
    "index is keyed by its own component of the triple; (R2) every value `find` returns comes through a filter that "
    "calls TriplePattern::matches, and each index arm looks its index up with the pattern component of the same name; "
    "(R3) the object-index arm of find is guarded by config.index_objects and triples_with_object falls back to a scan; "
    "(R4) find_with_pending removes pending deletes and adds a pending insert only under a membership test against the "
    "result so far (set semantics); (R5) TriplePattern::matches rejects exactly when a bound component differs from the "
    "triple's component of the same name. (R6) DELETE/INSERT WHERE applies every delete before any insert; (R7) the retain predicates of RdfStore::remove drop an index entry only where it equals the removed triple. "
    "SPARQL algebra is not decided.")
ASSUMPTIONS = ["Triple::{subject,predicate,object} and TriplePattern.{subject,predicate,object} name the components consistently"]

R = common.RDF
IDX = {"subject_index": "subject", "predicate_index": "predicate", "object_index": "object"}


def run(ctx):
    P = ctx.program()
    join_condition_is_conjunction(ctx, P, "R8")
    E = ctx.effects()
    # ---- R1
    want = {"triples", "subject_index", "predicate_index", "object_index"}
    for m in ("insert", "remove", "clear"):
        f = P.fn("RdfStore::" + m)
        W, _ = E.closure_sets([f])
        Wr = {c[1] for c in W if c[0] == R}
        for c in sorted(want):
            ctx.ob("R1", "RdfStore::%s#%s" % (m, c), c in Wr,
                   what="RdfStore::%s does not update RdfStore.%s: lookups through it disagree with the triple set" % (m, c), where=f.loc())
    nk = 0
    for m in ("insert", "remove"):
        f = P.fn("RdfStore::" + m)
        fx = FlowCx(P, f)
        for bi, t in f.calls():
            c = callee_name(t)
            last = c.split("::")[-1]
            if last not in ("entry", "get_mut", "remove", "get") or not t["args"] or len(t["args"]) < 2:
                continue
            rt = fx.tags(t["args"][0])
            for idx, comp in IDX.items():
                if ("cell:RdfStore." + idx) in rt and "hashbrown::map::HashMap" in c:
                    kt = fx.tags(t["args"][1])
                    comps = {x.split("::")[-1] for x in kt if x.startswith("call:Triple::")}
                    nk += 1
                    ctx.ob("R1k", "RdfStore::%s#%s.%s" % (m, idx, last), comps == {comp},
                           what="RdfStore::%s keys %s with the triple's %s (expected its %s): lookups by %s return the wrong triples"
                                % (m, idx, sorted(comps), comp, comp), where=f.loc(t["line"]))
                    if idx == "object_index":
                        flag = any(x[0] == "bool" and x[1] is True and "cell:RdfStoreConfig.index_objects" in x[2] for x in fx.facts_at(bi))
                        ctx.ob("R1", "RdfStore::%s#object_index-guard" % m, flag,
                               what="RdfStore::%s touches the object index without testing config.index_objects" % m, where=f.loc(t["line"]))
    ctx.floor("R1k", nk, 8, "index key sites in insert/remove")

    # ---- R2 / R3 find
    f = P.fn("RdfStore::find")
    fx = FlowCx(P, f)
    matches = P.fn("TriplePattern::matches")
    ncol = 0
    for bi, t in f.calls():
        c = callee_name(t)
        if c.split("::")[-1] == "collect" and "iter" in c:
            ncol += 1
            tg = fx.tags(t["args"][0])
            closures = [x[8:] for x in tg if x.startswith("closure:")]
            ok = "call:Iterator::filter" in tg and any(
                any(callee_name(t2) == matches.id for _, t2 in g.calls())
                for g in P.family(f) if g.kind == "closure" and short_id(g.id) in closures)
            ctx.ob("R2", "RdfStore::find#collect[%d]" % ncol, ok,
                   what="an arm of RdfStore::find returns candidates without re-filtering them through TriplePattern::matches", where=f.loc(t["line"]))
    ctx.floor("R2", ncol, 4, "result-producing arms of RdfStore::find")
    ng = 0
    for bi, t in f.calls():
        c = callee_name(t)
        if "hashbrown::map::HashMap" in c and c.split("::")[-1] == "get" and len(t["args"]) >= 2:
            rt = fx.tags(t["args"][0])
            for idx, comp in IDX.items():
                if ("cell:RdfStore." + idx) in rt:
                    ng += 1
                    kt = fx.tags(t["args"][1])
                    comps = {x.split(".")[-1] for x in kt if x.startswith("cell:TriplePattern.")}
                    ctx.ob("R2k", "RdfStore::find#%s" % idx, comps == {comp},
                           what="RdfStore::find looks %s up with the pattern's %s (expected %s)" % (idx, sorted(comps), comp), where=f.loc(t["line"]))
                    if idx == "object_index":
                        flag = any(x[0] == "bool" and x[1] is True and "cell:RdfStoreConfig.index_objects" in x[2] for x in fx.facts_at(bi))
                        ctx.ob("R3", "RdfStore::find#object-arm-guard", flag,
                               what="the object-index arm of RdfStore::find is not guarded by config.index_objects: with the index "
                                    "disabled an object-only lookup returns nothing instead of scanning", where=f.loc(t["line"]))
    ctx.floor("R2k", ng, 3, "index lookups in RdfStore::find")
    two = P.fn("RdfStore::triples_with_object")
    _, Rt = E.closure_sets([two])
    ctx.ob("R3", "RdfStore::triples_with_object#fallback", (R, "triples") in Rt and (R, "object_index") in Rt,
           what="triples_with_object has no full-scan fallback for a disabled object index", where=two.loc())

    _matches_table(ctx, P)

    # ---- R6 DELETE/INSERT WHERE: every delete is applied before any insert (SPARQL 1.1 Update: the result is
    # (G minus all deletions) plus all insertions, over the solutions computed once). If a delete is reachable after
    # an insert, a triple inserted for one solution can be removed again for a later one.
    mo = P.method("RdfModifyOperator", "Operator", "next")
    rm = {P.fn("RdfStore::remove").id, P.fn("RdfStore::remove_in_tx").id}
    ins = {P.fn("RdfStore::insert").id, P.fn("RdfStore::insert_in_tx").id}
    rblocks = [bi for bi, t in mo.calls() if callee_name(t) in rm]
    iblocks = [bi for bi, t in mo.calls() if callee_name(t) in ins]
    ctx.floor("R6", len(rblocks), 1, "delete applications in RdfModifyOperator::next")
    ctx.floor("R6", len(iblocks), 1, "insert applications in RdfModifyOperator::next")
    bad = [(i, r) for i in iblocks for r in rblocks if r in mo.reachable_blocks(i)]
    ctx.ob("R6", "RdfModifyOperator#deletes-before-inserts", not bad,
           what="RdfModifyOperator applies a DELETE template after an INSERT template has been applied (the two passes are "
                "interleaved per solution): a triple inserted for one solution is deleted again for a later one and the "
                "result depends on solution order", where=mo.loc())
    # ... and the solutions are collected before the first modification
    nx = [bi for bi, t in mo.calls() if (t["f"] or "").endswith("Operator::next")]
    bad2 = [n for n in nx if any(n in mo.reachable_blocks(x) for x in rblocks + iblocks)]
    ctx.ob("R6", "RdfModifyOperator#solutions-first", bool(nx) and not bad2,
           what="RdfModifyOperator pulls further solutions from its WHERE input after it has started modifying the store: the "
                "pattern is evaluated against a store its own update has already changed", where=mo.loc())

    # ---- R4 find_with_pending
    g = P.fn("RdfStore::find_with_pending")
    gx = FlowCx(P, g)
    npush = 0
    for bi, t in g.calls():
        c = callee_name(t)
        if c.split("::")[-1] in ("push", "extend", "append") and t["args"] and "alloc::vec::Vec" in c:
            # only additions that are (transitively) fed by a pending Insert
            at = set()
            for a in t["args"][1:]:
                at |= gx.tags(a)
            recv = gx.tags(t["args"][0])
            facts = gx.facts_at(bi)
            pend = any(x[0] == "variant" and x[1].endswith("PendingOp") and x[2] == "Insert" for x in facts)
            if not pend:
                continue
            npush += 1
            guarded = any(x[0] == "call" and x[1].split("::")[-1] in ("insert", "contains", "any") and
                          ((x[1].split("::")[-1] == "insert" and x[2] is True) or (x[1].split("::")[-1] != "insert" and x[2] is False)) and
                          any("call:RdfStore::find" in a for a in x[3][:1]) for x in facts)
            ctx.ob("R4", "find_with_pending#pending-insert[%d]" % npush, guarded,
                   what="find_with_pending adds a pending insert to the result without a membership test against the committed matches: "
                        "a triple that is already stored is returned twice", where=g.loc(t["line"]))
    ctx.floor("R4", npush, 1, "pending-insert additions in find_with_pending")
    has_retain = any(callee_name(t).split("::")[-1] == "retain" and "call:RdfStore::find" in gx.tags(t["args"][0]) for bi, t in g.calls())
    ctx.ob("R4", "find_with_pending#pending-deletes", has_retain,
           what="find_with_pending does not remove pending deletes from the committed matches", where=g.loc())


def _matches_table(ctx, P):
    """TriplePattern::matches: `false` exactly when a bound component differs from the triple's component of the same
    name; `true` otherwise"""
    from .flow import return_table
    f = P.fn("TriplePattern::matches")
    rows = return_table(P, f)
    comps = {"subject": False, "predicate": False, "object": False}
    extra = []
    has_true = False
    for v, facts, bi, ln in rows:
        if v == ("const", "1"):
            has_true = True
            continue
        if v == ("const", "0"):
            hit = None
            for x in facts:
                if x[0] == "cmp" and x[1] in ("Ne",):
                    a, b = x[2], x[3]
                    for c in comps:
                        if (("cell:TriplePattern." + c) in a and ("call:Triple::" + c) in b) or \
                           (("cell:TriplePattern." + c) in b and ("call:Triple::" + c) in a):
                            others = [o for o in comps if o != c]
                            cross = any(("call:Triple::" + o) in (a | b) or ("cell:TriplePattern." + o) in (a | b) for o in others)
                            if not cross:
                                hit = c
            if hit:
                comps[hit] = True
            else:
                extra.append(ln)
        else:
            extra.append(ln)
    ctx.ob("R5", "TriplePattern::matches#table", all(comps.values()) and has_true and not extra,
           what="TriplePattern::matches must reject exactly when a bound component differs from the triple's component of the same "
                "name (components checked: %s, unexpected rows at lines %s)" % (comps, extra), where=f.loc())

    # ---- R7 removing a triple drops exactly that triple from each index: the predicate handed to retain() in
    # RdfStore::remove lets an entry go (returns false) only on paths where the entry equals the removed triple -
    # a whole-triple comparison, or equality of at least the two components that the index key does not fix.
    rm = P.fn("RdfStore::remove")
    COMPS = ("subject", "predicate", "object")
    ncl = 0
    for g in sorted((g for g in P.fns.values() if g.kind == "closure" and g.parent == rm.id and g.local_ty(0) == "bool"), key=lambda g: g.id):
        ncl += 1

        def comps_of(a, b):
            """components on which a comparison of tag sets a, b compares an entry with the removed triple; 'whole' for a
            comparison of the triples themselves"""
            both = a | b
            cs = {c for c in COMPS if ("call:Triple::" + c) in a and ("call:Triple::" + c) in b}
            if not cs and not any(("call:Triple::" + c) in both for c in COMPS) and any(t.startswith("upvar:") for t in both):
                return {"whole"}
            return cs
        bad = []
        cases = bool_cases(FlowCx(P, g), ["m", [0]], False)
        if cases is None:
            bad.append("the predicate's result is not built from comparisons, constants and negations")
        for facts in cases or []:
            eq = set()
            for x in facts:
                if x[0] == "cmp" and x[1] == "Eq":
                    eq |= comps_of(x[2], x[3])
            if "whole" not in eq and len(eq) < 2:
                bad.append("an entry is dropped when only %s equals the removed triple's" % (sorted(eq) or "nothing"))
        ctx.ob("R7", "RdfStore::remove#retain[%s]" % g.id.split("{closure#")[-1].rstrip("}"), not bad,
               what="index maintenance in RdfStore::remove drops entries that are not the removed triple (%s): lookups through "
                    "that index lose triples that are still in the set" % "; ".join(bad), where=g.loc())
    ctx.floor("R7", ncl, 3, "retain predicates in RdfStore::remove")



def join_condition_is_conjunction(ctx, P, rule):
    """Two solutions join only if they agree on *every* shared variable. RdfJoinCondition::evaluate walks the list of shared
    variable pairs; an existential combinator over that list (`any`, `find`, `position`) accepts a pair of rows as soon as
    one variable agrees and multiplies the solutions of every join on two or more variables."""
    ev = [f for f in P.fns.values() if f.kind != "closure" and "RdfJoinCondition" in f.id and f.id.split("::")[-1] in ("evaluate", "matches")]
    n = 0
    for f in ev:
        bad = None
        for g in P.family(f):
            gx = FlowCx(P, g)
            for bi, t in g.calls():
                nm = (t.get("f") or callee_name(t)).split("::")[-1]
                if nm in ("any", "find", "find_map", "position") and t["args"] and any(x.startswith("cell:RdfJoinCondition.") for x in gx.tags(t["args"][0])):
                    # `!list.any(differs)` is the conjunction written the other way round: an `any` whose result is negated before
                    # it is used is accepted (the polarity of the closure itself is a value question and not decided)
                    negated = False
                    if nm == "any":
                        d0 = t["dst"][0]
                        al = {d0}
                        for b2 in g.blocks:
                            if b2["cl"]:
                                continue
                            for pl2, rv2, ln2 in b2["s"]:
                                if rv2[0] == "use" and isinstance(rv2[1], list) and len(rv2[1]) > 1 and isinstance(rv2[1][1], list) and rv2[1][1] and rv2[1][1][0] in al and len(pl2) == 1:
                                    al.add(pl2[0])
                        for b2 in g.blocks:
                            if b2["cl"]:
                                continue
                            for pl2, rv2, ln2 in b2["s"]:
                                if rv2[0] in ("un", "unary") and "Not" in str(rv2[1]) and any(isinstance(z, list) and len(z) > 1 and isinstance(z[1], list) and z[1] and z[1][0] in al for z in rv2[1:]):
                                    negated = True
                    if not negated:
                        bad = (g, t["line"], nm)
                if t["args"] and any(x.startswith("cell:RdfJoinCondition.") for x in gx.tags(t["args"][0])):
                    n += 1
        ctx.ob(rule, "%s#all-shared-variables" % short_id(f.id), bad is None,
               what="%s combines the shared join variables with `%s`: rows that agree on one shared variable but not on the others are "
                    "joined, so a pattern pair sharing two variables returns spurious solutions" % (short_id(f.id), bad[2] if bad else ""),
               where=(bad[0].loc(bad[1]) if bad else f.loc()))
    ctx.floor(rule, len(ev), 1, "RdfJoinCondition evaluators")
    ctx.floor(rule, n, 1, "uses of the shared-variable list in the evaluator")
