#!/usr/bin/env python3
"""dev-time helper (never run by a check): append currently firing, already TRIAGED violations of one
rule to known_findings.jsonl.  usage: addknown.py C03 R1 "<what fails>" "<triage: how it was shown on the real code>" [key-substring]"""
import json, os, sys
sys.path.insert(0, os.path.dirname(os.path.dirname(os.path.abspath(__file__))))
from rules.runner import run_check, load_known
prop, rule, what, triage = sys.argv[1:5]
sub = sys.argv[5] if len(sys.argv) > 5 else ""
rc, ctx, new = run_check(prop, "quick", write_evidence=False, quiet=True)
known = load_known()
n = 0
with open(os.path.join(os.path.dirname(os.path.dirname(os.path.abspath(__file__))), "known_findings.jsonl"), "a") as fh:
    for o in new:
        if o["rule"] == rule and o["key"] not in known and sub in o["key"]:
            fh.write(json.dumps({"property": prop, "rule": rule, "key": o["key"], "what": what + " (" + o["instance"] + ")", "triage": triage}) + "\n")
            n += 1
print("added", n)
