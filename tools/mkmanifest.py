#!/usr/bin/env python3
"""dev-time: regenerate MANIFEST.json from the table below"""
import json, os, sys, importlib
HERE = os.path.dirname(os.path.dirname(os.path.abspath(__file__)))
sys.path.insert(0, HERE)
BASE_OFF = ("cd /repo && cargo nextest run --workspace --no-fail-fast --tool-config-file pb:/w/lib/nextest.toml "
            "--profile pb --test-threads 8 --offline || cargo test --workspace --no-fail-fast --offline")
NA = {
    "C08": "answers are runtime values over an unbounded query x graph space; no clause of 'rows equal pattern semantics' is visible in the shape of the code (DESIGN §1)",
    "C11": "the identities relate results of different executions (runtime values); the only shape facts are too thin to be a necessary-condition claim",
    "C18": "distances, orderings and recall are numerical results; lock-order in hnsw.rs is covered under C20",
    "C19": "optimality/exactness of algorithm outputs are mathematical facts about values, not about code shape",
}
TECH = {
    "C03": "MIR control-dependence + call-graph reachability (rustc_private driver)",
    "C04": "MIR control-dependence + call-graph reachability (rustc_private driver)",
}
PENDING = "check not yet built in this revision (claimed in DESIGN.md; will be added)"
def main():
    props = [json.loads(l) for l in open(os.path.join(HERE, "properties.jsonl"))]
    checks = []
    na = []
    for p in props:
        pid = p["id"]
        modp = os.path.join(HERE, "rules", pid.lower() + ".py")
        if pid in NA:
            na.append({"property_id": pid, "reason": NA[pid]})
            continue
        if not os.path.exists(modp):
            na.append({"property_id": pid, "reason": PENDING})
            continue
        mod = importlib.import_module("rules." + pid.lower())
        checks.append({
            "property_id": pid,
            "quick_cmd": "./verif check %s --tier quick" % pid,
            "thorough_cmd": "./verif check %s --tier thorough" % pid,
            "evidence_file": "/verif/evidence/%s.json" % pid,
            "replay_cmd_template": "./verif explain {path}",
            "engine": "grafeo-facts+rules",
            "level_claimed": {"category": "other", "text": mod.EXPLANATION, "design_ref": "DESIGN.md §5 " + pid},
            "level_note": "trusted: rustc type checking/MIR/callee resolution; API tables (lock, atomic, collection calls); "
                          "the rule-instance tables in rules/%s.py. Decides the named structural clauses (necessary conditions), not the behaviour as a whole." % pid.lower(),
            "technique": getattr(mod, "TECHNIQUE", "static analysis: custom MIR dataflow/call-graph rules (rustc_private driver + rule layer)"),
        })
    m = {
        "version": 1,
        "setup_cmd": "./verif setup",
        "hooks": {"guard": "grafeo_verif", "enable": "none needed: the analysis reads the unmodified source (no hook commits)",
                  "baseline_off_cmd": BASE_OFF, "source_commits": [], "add_only": True},
        "engines": [
            {"name": "grafeo-facts", "path": "/verif/engine", "serves_properties": [c["property_id"] for c in checks],
             "kind_free_text": "rustc_private driver (nightly) dumping resolved MIR facts per workspace crate, injected with RUSTC_WORKSPACE_WRAPPER under cargo +nightly check"},
            {"name": "rules", "path": "/verif/rules", "serves_properties": [c["property_id"] for c in checks],
             "kind_free_text": "Python rule layer over the MIR facts: call graph with virtual fan-out, state-cell effects, edge-dominance / control-dependence, lock scopes"},
        ],
        "checks": checks,
        "not_applicable": na,
        "notes": "Static analysis only. Exit 0 = property clauses hold (known findings printed as KNOWN-FINDING), 1 = VIOLATION, 2 = checker error (anchor/floor). See DESIGN.md.",
    }
    json.dump(m, open(os.path.join(HERE, "MANIFEST.json"), "w"), indent=1)
    print("checks:", [c["property_id"] for c in checks], "na:", [n["property_id"] for n in na])
main()
