#!/usr/bin/env python3
"""dev-time: apply one patch to a scratch copy of /repo and run the named checks on it.
usage: try_patch.py <patch> <PROP> [<PROP>...]"""
import os, sys
sys.path.insert(0, os.path.dirname(os.path.dirname(os.path.abspath(__file__))))
from rules.selftest import run_mutant
from rules.facts import CheckerError
try:
    r = run_mutant(sys.argv[1], sys.argv[2:])
except CheckerError as e:
    print("CHECKER-ERROR", e)
    sys.exit(2)
if "_skipped" in r:
    print("SKIPPED", r["_skipped"])
    sys.exit(3)
for p, (rc, new) in r.items():
    print(p, "rc=%d" % rc, "new violations: %d" % len(new))
    for o in new:
        print("   ", o["key"], "@", o["where"])
