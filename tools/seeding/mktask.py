import re,subprocess,sys
AVOID="(Earlier rounds of this exercise already used the following sites; choose a DIFFERENT function and mechanism: Session::get_node_property; TransactionManager::gc; TransactionManager::commit read-set handling; WalManager::truncate_torn_tail; WalManager::sync; WalRecovery read_record length cap; LpgStore::update_property_index_on_set; LpgStore::create_node_with_id/create_edge_with_id id counters; RdfStore::commit_tx ordering; RdfStore::insert_in_tx; GrafeoDB::export_snapshot property conversion; Optimizer::try_push_filter_into Project arm; RdfModifyOperator::next; cypher Lexer::scan_string; LpgStore::get_or_create_label_id; HashableValue list equality; AdjacencyChunk::compress; ExpandOperator edge visibility; ExternalSort compare_rows; TransactionManager::commit (write-set handling, lock scope); ExpressionPredicate::eval_modulo; RdfStore::remove retain predicates; LpgStore::add_label lock order; SnapshotNode serde attributes; Optimizer::collect_output_variables_recursive; ZoneMapEntry::might_contain_less_than/greater_than; DeltaEncoding::encode_signed; OrderedFloat64::cmp; PropertyColumn::set zone map; WalManager::write_checkpoint_metadata; RdfStore::insert lock scope; QueryProcessor::process_lpg planner context; LpgStore::discard_uncommitted_versions; GrafeoDB::close commit marker; TransactionManager::abort state guard; TransactionManager::record_read; LpgStore::all_nodes / remove_label; Optimizer::collect_variables; Planner::check_zone_map_for_predicate; GQL percentile clamp; RdfStore::find_with_pending; LpgStore::find_nodes_by_properties; CodecSelector::select_for_integers; AggregateState::update distinct promotion; HashAggregateOperator::next chunk boundary; LpgStore::advance_epoch_to; FilterOperator::next selection; DistinctOperator keys; Pipeline::push_through stop forwarding; AsyncWalManager::rotate; GraphQLTranslator::expand_fragment; SpillableSortPushOperator::maybe_spill key conversion; AdjacencyList::compact; ScanOperator::load_batch; JoinGraph::get_conditions; GrafeoDB::apply_wal_records; MergeOperator::find_matching_node; MemoryGrant::resize; DictionaryBuilder::clear; VersionChain::has_conflict; RdfJoinCondition::evaluate; SPARQL parse_triples_block; WalRecovery::recover_internal; sort::compare_values; TransactionManager::record_write; ParallelChunkSource::new; FactorizedExpandChain::collect_all_batches; LpgStore::create_edge_with_id adjacency.%s)\n"
base=open(__import__('os').path.join(__import__('os').path.dirname(__import__('os').path.abspath(__file__)),'task_wt20.txt')).read()
def mk(n,pid,extra=""):
    import json
    P={json.loads(l)['id']:json.loads(l) for l in open('/verif/properties.jsonl')}[pid]
    pb="PROPERTY %s \u2014 %s\n%s\n\n(Code this property is anchored in: %s.)\n"%(pid,P['title'],P['statement'],", ".join(P['anchors']['files']))
    t=re.sub(r"PROPERTY C02 .*?\n\n\(Code this property is anchored in:.*?\)\n",lambda m:pb,base,flags=re.S)
    t=re.sub(r"\(Earlier rounds.*?\)\n",lambda m:AVOID%extra,t,flags=re.S)
    t=t.replace('wt20','wt%d'%n).replace('"property": "C02"','"property": "%s"'%pid)
    assert pid == 'C02' or 'C02' not in t, pid
    open('/tmp/seed/task_wt%d.txt'%n,'w').write(t)
    subprocess.check_call(['git','-C','/repo','worktree','add','--detach','/tmp/seed/wt%d'%n,'HEAD'],stdout=subprocess.DEVNULL,stderr=subprocess.DEVNULL)
    import os
    if os.path.isdir('/tmp/seed/tgt_template'):
        subprocess.check_call(['cp','-a','/tmp/seed/tgt_template','/tmp/seed/wt%d/target'%n])
if __name__=='__main__':
    for a in sys.argv[1:]:
        n,pid,*ex=a.split(':',2); mk(int(n),pid,(" This round, prefer a site in one of these anchor files, which earlier rounds did not touch: "+ex[0]+".") if ex else "")
