#!/usr/bin/env python3
"""dev-time: store a confirmed seeded change. usage: store_seed.py <worktree> <seed-id> <first_run> <detected_by> <demo_with> <demo_without>"""
import json, os, shutil, subprocess, sys
wt, sid, first, det, dw, dwo = sys.argv[1:7]
dst = os.path.join(os.path.dirname(os.path.dirname(os.path.abspath(__file__))), "seeded", sid)
os.makedirs(dst, exist_ok=True)
for f in os.listdir(os.path.join(wt, "seed")):
    shutil.copy(os.path.join(wt, "seed", f), os.path.join(dst, f))
m = json.load(open(os.path.join(dst, "meta.json")))
m["confirmed_by_verifier"] = {"demo_with_change": dw, "demo_without_change": dwo,
                              "full_suite_with_change": "run by the seeding agent (see full_suite_result); not re-run by the verifier",
                              "base_commit": subprocess.check_output(["git", "-C", wt, "rev-parse", "--short", "HEAD"], text=True).strip()}
m["first_run"] = first
m["detected_by"] = det
json.dump(m, open(os.path.join(dst, "meta.json"), "w"), indent=1)
print("stored", dst, sorted(os.listdir(dst)))
